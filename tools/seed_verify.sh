#!/bin/sh
# tools/seed_verify.sh <seed-name> <srcdir> <property> : confirm a seeded regression in a scratch worktree and file it
# under seeded/<seed-name>/ (patch.diff, demo.py, notes.md, meta.json).  The worktree is removed afterwards.
set -u
name="$1"; src="$2"; prop="$3"
wt="/tmp/sv-$name"
git -C /repo worktree remove --force "$wt" 2>/dev/null
git -C /repo worktree add -q --detach "$wt" HEAD || exit 2
applies=no; tests=""; demo_orig=""; demo_mut=""
if git -C "$wt" apply "$src/patch.diff" 2>/dev/null; then applies=yes; fi
if [ "$applies" = yes ]; then
  tests=$(cd "$wt" && PYTHONPATH="$wt" MPLBACKEND=Agg /venv/bin/python -m pytest -q -p no:cacheprovider --timeout=900 --continue-on-collection-errors verif/tests 2>&1 | grep -E "^FAILED|passed|failed" | sed 's/ - .*//' | tr '\n' ';')
  (cd /tmp && PYTHONPATH=/repo MPLBACKEND=Agg timeout 600 /venv/bin/python "$src/demo.py" >/tmp/sv-$name.orig.log 2>&1); demo_orig=$?
  (cd /tmp && PYTHONPATH="$wt" MPLBACKEND=Agg timeout 600 /venv/bin/python "$src/demo.py" >/tmp/sv-$name.mut.log 2>&1); demo_mut=$?
fi
mkdir -p /verif/seeded/"$name"
cp "$src/patch.diff" "$src/demo.py" /verif/seeded/"$name"/
[ -f "$src/notes.md" ] && cp "$src/notes.md" /verif/seeded/"$name"/
check_out=$(cd /verif && PYVC_REPO="$wt" ./check "$prop" --tier quick --no-evidence 2>&1 | grep -E "^(VIOLATION|REFUTED|UNDECIDED|CHECKER|pyvc: no)" | cut -c1-300 | head -20)
check_rc=$(cd /verif && PYVC_REPO="$wt" ./check "$prop" --tier quick --no-evidence >/dev/null 2>&1; echo $?)
python3 - "$name" "$prop" "$applies" "$tests" "$demo_orig" "$demo_mut" "$check_rc" "$check_out" <<'PY'
import json, sys, subprocess
name, prop, applies, tests, do, dm, rc, out = sys.argv[1:9]
head = subprocess.run(["git","-C","/repo","rev-parse","--short","HEAD"],capture_output=True,text=True).stdout.strip()
meta = {"seed": name, "breaks_property": prop, "base_commit": head, "patch_applies": applies == "yes",
        "test_suite_with_change": tests, "demo_exit_on_original": do, "demo_exit_on_changed": dm,
        "confirmed": applies == "yes" and do == "0" and dm == "1",
        "check_exit_on_changed_tree": rc, "check_output": out.split("\n"),
        "what_i_ran": ["git worktree add /tmp/sv-<seed> HEAD; git apply patch.diff",
                       "PYTHONPATH=<worktree> /venv/bin/python -m pytest ... verif/tests (pinned command)",
                       "PYTHONPATH=/repo python demo.py ; PYTHONPATH=<worktree> python demo.py",
                       "PYVC_REPO=<worktree> ./check %s --tier quick --no-evidence" % prop]}
try:
    old = json.load(open("/verif/seeded/%s/meta.json" % name))
    for k in ("needs_to_manifest", "origin"):
        if k in old: meta[k] = old[k]
except Exception:
    pass
json.dump(meta, open("/verif/seeded/%s/meta.json" % name, "w"), indent=1)
print(name, "confirmed" if meta["confirmed"] else "NOT CONFIRMED", "| tests:", tests[-60:], "| check rc", rc)
print(out)
PY
git -C /repo worktree remove --force "$wt"
