#!/bin/sh
# tools/refactor_check.sh <patch.diff> : apply a behaviour-preserving refactoring to a scratch worktree and run every
# quick check on it; a correct verifier reports NO violation (undecided is allowed).
patch="$1"; name=$(basename "$patch" .diff)
wt=/tmp/rc-$name
git -C /repo worktree remove --force $wt 2>/dev/null
git -C /repo worktree add -q --detach $wt HEAD || exit 2
if ! git -C $wt apply "$patch" 2>/dev/null; then echo "$name patch-does-not-apply"; git -C /repo worktree remove --force $wt; exit 0; fi
files=$(git -C $wt diff --name-only | tr '\n' ' ')
tot_v=0; tot_u=0; bad=""
for p in C01 C02 C03 C04 C05 C06 C07 C08 C09 C10 C11 C12 C13 C14 C15 C17 C18; do
  out=$(cd ${PYVC_SNAP:-/verif} && PYVC_REPO=$wt ./check $p --tier quick --no-evidence 2>&1)
  rc=$?
  v=$(echo "$out" | grep -c "^VIOLATION"); u=$(echo "$out" | grep -c "^UNDECIDED")
  tot_v=$((tot_v+v)); tot_u=$((tot_u+u))
  if [ $rc -ne 0 ] || [ $v -ne 0 ]; then bad="$bad $p(rc=$rc,v=$v)"; echo "$out" | grep -E "^(REFUTED|VIOLATION|CHECKER)" | cut -c1-300 | head -6; fi
done
echo "$name files=[$files] violations=$tot_v undecided=$tot_u bad=[$bad]"
git -C /repo worktree remove --force $wt
