"""Contracts for verif/interval.py (properties C07, C04, C06)."""
import verif.interval

from pyvc.framework import Obligation, register, Bag, FIN, NAN, PINF, NINF, ALL_KINDS
from .common import member, NOT_NAN

MOD = [verif.interval]


def _within_array(lower_eq, upper_eq):
    def setup(G):
        return Bag(x=G.array("x", ("n",), kinds=ALL_KINDS),
                   lower=G.num("lower", kinds=NOT_NAN), upper=G.num("upper", kinds=NOT_NAN))

    def call(inp):
        return verif.interval.Interval(inp.lower, inp.upper, lower_eq, upper_eq).within(inp.x)

    def post(S, inp, out):
        def body(i):
            xi = S.at(inp.x, i)
            return S.and_(S.iff(S.masked_at(out, i), S.isnan(xi)),
                          S.iff(S.at(out, i), member(S, xi, inp.lower, inp.upper, lower_eq, upper_eq)))
        return [("masked-iff-nan,value-is-membership", S.and_(S.is_masked_array(out), S.forall(inp.x, body)))]

    def canary(S, inp, out):
        def body(i):
            xi = S.at(inp.x, i)
            return S.iff(S.at(out, i), member(S, xi, inp.lower, inp.upper, not lower_eq, upper_eq))
        return [("flipped-lower-closedness", S.forall(inp.x, body))]
    return setup, call, post, canary


def _within_scalar(lower_eq, upper_eq):
    def setup(G):
        return Bag(x=G.num("x", kinds=ALL_KINDS), lower=G.num("lower", kinds=NOT_NAN), upper=G.num("upper", kinds=NOT_NAN))

    def call(inp):
        return verif.interval.Interval(inp.lower, inp.upper, lower_eq, upper_eq).within(inp.x)

    def post(S, inp, out):
        x = inp.x
        if isinstance(out, float) or (not S.symbolic and not isinstance(out, (bool,)) and hasattr(out, "dtype") and out.dtype.kind == "f"):
            # the NaN answer
            return [("nan-in-nan-out", S.and_(S.isnan(x), S.isnan(out)))]
        return [("not-nan,value-is-membership", S.and_(S.not_(S.isnan(x)),
                                                       S.iff(out, member(S, x, inp.lower, inp.upper, lower_eq, upper_eq))))]
    return setup, call, post


for _le in (False, True):
    for _ue in (False, True):
        tag = "%s%s" % ("[" if _le else "(", "]" if _ue else ")")
        s, c, p, cn = _within_array(_le, _ue)
        register(Obligation("verif.interval.Interval.within#POST:array%s" % tag, ("C07", "C04", "C06"), s, c, p,
                            modules=MOD, canary=cn))
        s, c, p = _within_scalar(_le, _ue)
        register(Obligation("verif.interval.Interval.within#POST:scalar%s" % tag, ("C07", "C04"), s, c, p, modules=MOD))


def _center():
    def setup(G):
        return Bag(lower=G.num("lower", kinds=(FIN, NINF)), upper=G.num("upper", kinds=(FIN, PINF)))

    def call(inp):
        return verif.interval.Interval(inp.lower, inp.upper, False, False).center

    def post(S, inp, out):
        lo, up = inp.lower, inp.upper
        want = S.ite(S.and_(S.isinf(lo), S.isinf(up)), 0,
                     S.ite(S.isinf(lo), up, S.ite(S.isinf(up), lo, (lo + up) / 2)))
        return [("center", S.same(out, want))]
    return setup, call, post


s, c, p = _center()
register(Obligation("verif.interval.Interval.center#POST:definition", ("C07", "C12"), s, c, p, modules=MOD))
