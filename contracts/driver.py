"""Contracts for verif/driver.py (C13 option semantics, C17 wiring of appearance options) and util.parse_numbers.

The real driver.run(argv) is executed with everything it calls replaced by contract stubs (input files, Data,
the output methods that draw / print): what is decided is the WIRING -- which documented destination receives the
value of which flag -- for every documented flag and every ordered pair of flags.  Values are handed through
opaquely by the code between the flag and its destination, so a sample value per flag decides the wiring for all
values (parametricity; stated as an assumption).  All obligations of this module are executions of the real code
on stubs over a finite, stated domain: they are labelled bounded and never counted as discharged."""
import ast
import contextlib
import inspect
import io
import itertools
import os
import tempfile
import textwrap
import time
from fractions import Fraction

import numpy as _np

import verif.driver
import verif.data
import verif.input
import verif.output
import verif.metric
import verif.util
import verif.field
import verif.axis
import verif.aggregator

from pyvc import framework, engine
from pyvc.framework import Obligation, register
from .axis import _enumerated, civil_from_days, days_from_civil


# ----------------------------------------------------------------------------------------------
# stubs and recorder
# ----------------------------------------------------------------------------------------------
class StubIn(object):
    def __init__(self, name):
        self.fullname = name
        self.name = name

    def __repr__(self):
        return "StubIn(%s)" % self.name

    def __eq__(self, o):
        return isinstance(o, StubIn) and o.name == self.name

    __hash__ = None


class RecData(object):
    calls = None

    def __init__(self, inputs, **kw):
        RecData.calls.append(("Data", list(inputs), dict(kw)))
        self.thresholds = _np.array([1.0, 2.0])
        self.quantiles = _np.array([0.1, 0.9])
        self.num_inputs = len(inputs)
        self.times = _np.array([0, 86400])
        self.locations = []

    def get_fields(self):
        return [verif.field.Obs(), verif.field.Fcst()]

    def get_scores(self, *a, **k):
        return _np.array([0.0, 1.0, 2.0])


def _canon(x):
    """comparable snapshot of a recorded value"""
    if isinstance(x, _np.ndarray):
        return ["ndarray", [float(v) for v in x.flatten()]]
    if isinstance(x, (list, tuple)):
        return [_canon(v) for v in x]
    if isinstance(x, dict):
        return {k: _canon(v) for k, v in sorted(x.items())}
    if isinstance(x, (str, int, float, bool)) or x is None:
        return x
    if isinstance(x, StubIn):
        return repr(x)
    if isinstance(x, (verif.field.Field, verif.axis.Axis, verif.aggregator.Aggregator, verif.metric.Metric)):
        d = {k: _canon(v) for k, v in sorted(getattr(x, "__dict__", {}).items()) if not k.startswith("__")}
        return [type(x).__name__, d]
    return type(x).__name__


class Record(object):
    def __init__(self):
        self.data = None          # (inputs, kwargs)
        self.pl_class = None
        self.pl = None            # attribute dict of the output object when its output method was called
        self.method = None
        self.metric_agg = None
        self.outcome = None       # 'ok' | ('abort', code) | ('raise', type name, message)
        self.stdout = ""

    def key(self):
        return _canon({"data": self.data, "pl_class": self.pl_class, "pl": self.pl, "method": self.method, "outcome": self.outcome,
                       "metric_agg": self.metric_agg})


VALID_FILES = ("A", "B", "CLIM", "CLIM2")


def run_driver(args):
    """execute the real verif.driver.run(['verif'] + args) against the stubs"""
    rec = Record()
    RecData.calls = []

    def get_input(filename):
        if filename in VALID_FILES:
            return StubIn(filename)
        verif.util.error("File '" + filename + "' is not a valid input file")

    def recorder(method):
        def f(self, data=None):
            rec.method = method
            rec.pl_class = type(self).__name__
            rec.pl = {k: v for k, v in self.__dict__.items() if k not in ("_metric", "metric")}
            m = self.__dict__.get("_metric")
            rec.metric_agg = _canon(getattr(m, "aggregator", None)) if m is not None else None
        return f
    out_patch = {m: recorder(m) for m in ("plot", "text", "csv", "map", "plot_rank", "plot_impact", "plot_mapimpact")}
    buf = io.StringIO()
    with contextlib.ExitStack() as st:
        st.enter_context(engine.patched(verif.input, get_input=get_input))
        st.enter_context(engine.patched(verif.data, Data=RecData))
        for m, f in out_patch.items():
            st.enter_context(engine.patched_attr(verif.output.Output, m, f))
        st.enter_context(contextlib.redirect_stdout(buf))
        try:
            verif.driver.run(["verif"] + list(args))
            rec.outcome = "ok"
        except SystemExit as e:
            rec.outcome = ("abort", e.code)
        except Exception as e:
            rec.outcome = ("raise", type(e).__name__, str(e)[:200])
    rec.stdout = buf.getvalue()
    if RecData.calls:
        rec.data = (RecData.calls[0][1], RecData.calls[0][2])
    return rec


BASE = ["A", "B", "-m", "mae"]


# ----------------------------------------------------------------------------------------------
# the documented option table:  flag -> (sample value or None for switches, destination, expected value)
# destination: ("data", kwarg) | ("pl", attribute) | ("method", name) | ("plclass", name) | ("metric_agg",)
# ----------------------------------------------------------------------------------------------
def _nums(s):
    return [float(x) for x in s.split(",")]


OPTIONS = {
    # --- data selection / computation (C13)
    "-l": ("3,5,7", ("data", "locations"), _nums("3,5,7")),
    "-lx": ("4,6", ("data", "locations_x"), _nums("4,6")),
    "-latrange": ("10,20", ("data", "lat_range"), _nums("10,20")),
    "-lonrange": ("-30,40", ("data", "lon_range"), _nums("-30,40")),
    "-elevrange": ("0,1500", ("data", "elev_range"), _nums("0,1500")),
    "-obsrange": ("-5,5", ("data", "obs_range"), _nums("-5,5")),
    "-o": ("0,6,12", ("data", "leadtimes"), _nums("0,6,12")),
    "-d": ("20120101,20120103", ("data", "dates"), [20120101, 20120103]),
    "-tod": ("0,12", ("data", "tods"), [0, 12]),
    "-t": ("1325376000,1325462400", ("data", "times"), _nums("1325376000,1325462400")),
    "-c": ("CLIM", ("data", "clim+type"), ("StubIn(CLIM)", "subtract")),
    "-C": ("CLIM2", ("data", "clim+type"), ("StubIn(CLIM2)", "divide")),
    "-leg": ("First_one,Second", ("data", "legend"), ["First one", "Second"]),
    "-obs": ("fcst", ("data", "obs_field"), ("Fcst", {})),
    "-fcst": ("obs", ("data", "fcst_field"), ("Obs", {})),
    "-T": ("6", ("data", "dim_agg_length"), 6),
    "-Tagg": ("max", ("data", "dim_agg_method"), ("Max", {})),
    "-Tx": ("time", ("data", "dim_agg_axis"), ("Time", {})),
    "-x": ("location", ("pl", "axis"), ("Location", {})),
    "-b": ("below=", ("pl", "bin_type"), "below="),
    "-r": ("1,5,10", ("pl", "thresholds"), ("ndarray", _nums("1,5,10"))),
    "-q": ("0.1,0.9", ("pl", "quantiles"), ("ndarray", _nums("0.1,0.9"))),
    "-agg": ("median", ("pl+metric", "aggregator"), ("Median", {})),
    "-acc": (None, ("pl", "show_acc"), True),
    "-f": ("out.png", ("pl", "filename"), "out.png"),
    "-type": ("csv", ("method", None), "csv"),
    "-hist": (None, ("plclass", None), "Hist"),
    "-sort": (None, ("plclass", None), "Sort"),
    # --- appearance (C17)
    "-title": ("My_title", ("pl", "title"), "My title"),
    "-xlabel": ("X", ("pl", "xlabel"), "X"),
    "-ylabel": ("Y", ("pl", "ylabel"), "Y"),
    "-clabel": ("C", ("pl", "clabel"), "C"),
    "-xlim": ("0,10", ("pl", "xlim"), _nums("0,10")),
    "-ylim": ("-1,1", ("pl", "ylim"), _nums("-1,1")),
    "-clim": ("2,3", ("pl", "clim"), _nums("2,3")),
    "-xticks": ("1,2,3", ("pl", "xticks"), _nums("1,2,3")),
    "-yticks": ("4,5", ("pl", "yticks"), _nums("4,5")),
    "-xticklabels": ("a,b,c", ("pl", "xticklabels"), ["a", "b", "c"]),
    "-yticklabels": ("d,e", ("pl", "yticklabels"), ["d", "e"]),
    "-xrot": ("45", ("pl", "xrot"), 45.0),
    "-yrot": ("30", ("pl", "yrot"), 30.0),
    "-xlog": (None, ("pl", "xlog"), True),
    "-ylog": (None, ("pl", "ylog"), True),
    "-legfs": ("9", ("pl", "legfs"), 9.0),
    "-legloc": ("upper_left", ("pl", "leg_loc"), "upper left"),
    "-lc": ("red,blue", ("pl", "line_colors"), ["red", "blue"]),
    "-ls": ("-,--", ("pl", "line_styles"), ["-", "--"]),
    "-lw": ("1,3", ("pl", "lw"), _nums("1,3")),
    "-ma": ("o,x", ("pl", "markers"), ["o", "x"]),
    "-ms": ("4,6", ("pl", "ms"), [4, 6]),
    "-labfs": ("11", ("pl", "labfs"), 11.0),
    "-tickfs": ("7", ("pl", "tick_font_size"), 7.0),
    "-titlefs": ("21", ("pl", "titlefs"), 21.0),
    "-afs": ("5", ("pl", "afs"), 5.0),
    "-gc": ("green", ("pl", "grid_color"), "green"),
    "-gs": ("--", ("pl", "grid_style"), "--"),
    "-gw": ("2", ("pl", "grid_lw"), "2"),
    "-nogrid": (None, ("pl", "grid"), False),
    "-sp": (None, ("pl", "show_perfect"), True),
    "-aspect": ("2", ("pl", "aspect"), 2.0),
    "-fs": ("10,4", ("pl", "figsize"), ["10", "4"]),
    "-dpi": ("200", ("pl", "dpi"), 200),
    "-left": ("0.2", ("pl", "left"), 0.2),
    "-right": ("0.8", ("pl", "right"), 0.8),
    "-top": ("0.9", ("pl", "top"), 0.9),
    "-bottom": ("0.1", ("pl", "bottom"), 0.1),
    "-nomargin": (None, ("pl", "show_margin"), False),
    "-a": (None, ("pl", "annotate"), True),
    "-af": ("score,lat", ("pl", "annotation_format"), ["score", "lat"]),
    "-cmap": ("RdBu", ("pl", "cmap"), "RdBu"),
    "-maptype": ("simple", ("pl", "map_type"), "simple"),
    "-simple": (None, ("pl", "simple"), True),
    "-obsleg": ("Obs", ("pl", "obs_leg"), "Obs"),
}
C13_FLAGS = ["-l", "-lx", "-latrange", "-lonrange", "-elevrange", "-obsrange", "-o", "-d", "-tod", "-t", "-c", "-C", "-leg", "-obs", "-fcst", "-T",
             "-Tagg", "-Tx", "-x", "-b", "-r", "-q", "-agg", "-acc", "-f", "-type", "-hist", "-sort"]
C17_FLAGS = [f for f in OPTIONS if f not in C13_FLAGS] + ["-leg", "-f"]


def _args(flag):
    v = OPTIONS[flag][0]
    return [flag] if v is None else [flag, v]


def _diff(base, rec):
    """which recorded destinations differ from the baseline run"""
    out = {}
    bk, rk = base.key(), rec.key()
    for k in ("outcome", "method", "pl_class", "metric_agg"):
        if bk[k] != rk[k]:
            out[k] = rk[k]
    bd = bk["data"][1] if bk["data"] else {}
    rd = rk["data"][1] if rk["data"] else {}
    for k in set(bd) | set(rd):
        if bd.get(k) != rd.get(k):
            out["data." + k] = rd.get(k)
    if (bk["data"] or [None])[0] != (rk["data"] or [None])[0]:
        out["data.inputs"] = (rk["data"] or [None])[0]
    bp, rp = bk["pl"] or {}, rk["pl"] or {}
    for k in set(bp) | set(rp):
        if bp.get(k) != rp.get(k):
            out["pl." + k] = rp.get(k, "<absent>")
    return out


def _wire(flag):
    def body():
        val, dest, want = OPTIONS[flag]
        base = run_driver(BASE)
        rec = run_driver(BASE + _args(flag))
        d = _diff(base, rec)
        kind, name = dest
        if kind == "data" and name == "clim+type":
            expect = {"data.clim": want[0], "data.inputs": None}
            if want[1] != "subtract":
                expect["data.clim_type"] = want[1]
            expect.pop("data.inputs")
        elif kind == "data":
            expect = {"data." + name: _canon(want)}
        elif kind == "pl":
            expect = {"pl." + name: _canon(want)}
        elif kind == "pl+metric":
            expect = {"pl." + name: _canon(want), "metric_agg": _canon(want)}
        elif kind == "method":
            expect = {"method": want}
        elif kind == "plclass":
            expect = {"pl_class": want}
        if rec.outcome != "ok":
            return 1, {"flag": flag, "argv": BASE + _args(flag), "outcome": rec.outcome}
        # the documented destination received the value ...
        for k, v in expect.items():
            if d.get(k, "<unchanged>") != v:
                return 1, {"flag": flag, "argv": BASE + _args(flag), "destination": k, "got": d.get(k, "<unchanged>"), "want": v}
        # ... and nothing else changed (frame)
        extra = {k: v for k, v in d.items() if k not in expect and not (flag in ("-hist", "-sort") and (k.startswith("pl.") or k == "metric_agg"))}
        if extra:
            return 1, {"flag": flag, "argv": BASE + _args(flag), "unexpected-side-effects": {k: str(v)[:80] for k, v in extra.items()}}
        return 1, None
    return body


for _f in OPTIONS:
    props = []
    if _f in C13_FLAGS:
        props.append("C13")
    if _f in ("-l", "-lx", "-latrange", "-lonrange", "-elevrange", "-obsrange", "-o", "-d", "-tod", "-t"):
        props.append("C03")
    if _f in ("-T", "-Tagg", "-Tx"):
        props.append("C15")
    if _f in C17_FLAGS:
        props.append("C17")
    _enumerated("verif.driver.run#WIRE:%s" % _f, tuple(props),
                "one flag with a sample value against the stubbed destinations (wiring is value-independent: the value is handed through opaquely)",
                _wire(_f), ["verif.driver.run"])


# ---- every ordered pair of options commutes (documented exceptions: flags that set the same state)
SAME_STATE = [{"-c", "-C"}, {"-hist", "-sort"}]


def _commute(flags, tag):
    def body():
        cases = 0
        for f1, f2 in itertools.combinations(flags, 2):
            if any(f1 in s and f2 in s for s in SAME_STATE):
                continue
            a = run_driver(BASE + _args(f1) + _args(f2))
            b = run_driver(BASE + _args(f2) + _args(f1))
            c = run_driver(_args(f1) + BASE[:2] + _args(f2) + BASE[2:])
            cases += 3
            if a.key() != b.key() or a.key() != c.key():
                return cases, {"flags": [f1, f2], "difference": {k: (str(a.key()[k])[:120], str(b.key()[k])[:120], str(c.key()[k])[:120])
                                                                for k in a.key() if not (a.key()[k] == b.key()[k] == c.key()[k])}}
        return cases, None
    return body


_ALL = list(OPTIONS)
_enumerated("verif.driver.run#COMMUTE:all-pairs-of-selection-and-computation-options", ("C13",),
            "all unordered pairs of the 28 data-selection/computation flags, three orders each (both orders after the files, and interleaved with the files)",
            _commute(C13_FLAGS, "c13"), ["verif.driver.run"])
_enumerated("verif.driver.run#COMMUTE:all-pairs-of-all-options", ("C13", "C17"),
            "all unordered pairs of all %d documented flags, three orders each" % len(_ALL), _commute(_ALL, "all"), ["verif.driver.run"])


def _last_wins():
    def body():
        a = run_driver(BASE + ["-c", "CLIM", "-C", "CLIM2"])
        b = run_driver(BASE + ["-C", "CLIM2"])
        c = run_driver(BASE + ["-C", "CLIM2", "-c", "CLIM"])
        d = run_driver(BASE + ["-c", "CLIM"])
        if a.key() != b.key() or c.key() != d.key():
            return 4, {"flags": ["-c", "-C"], "note": "the later of -c / -C must win"}
        return 4, None
    return body


_enumerated("verif.driver.run#COMMUTE:-c/-C-last-one-wins", ("C13", "C14"), "the two orders of -c and -C", _last_wins(), ["verif.driver.run"])


CONFIG_LAYOUTS = {
    "three-per-line": lambda toks: "".join(" ".join(toks[i:i + 3]) + "\n" for i in range(0, len(toks), 3)),
    "one-per-line": lambda toks: "".join(t + "\n" for t in toks),
    "one-line-no-final-newline": lambda toks: " ".join(toks),
    "three-per-line-no-final-newline": lambda toks: "\n".join(" ".join(toks[i:i + 3]) for i in range(0, len(toks), 3)),
    "tabs-and-crlf": lambda toks: "".join("\t".join(toks[i:i + 2]) + "\r\n" for i in range(0, len(toks), 2)),
    "blank-lines-and-padding": lambda toks: "\n" + "".join("  " + " ".join(toks[i:i + 4]) + "   \n\n" for i in range(0, len(toks), 4)),
}


def _config():
    def body():
        cases = 0
        d = tempfile.mkdtemp(prefix="pyvc.cfg.", dir="/var/tmp")
        try:
            for flags in (C13_FLAGS[:10], C13_FLAGS[10:20], C13_FLAGS[20:] , list(OPTIONS)[28:50], list(OPTIONS)[50:]):
                flags = [f for f in flags if f not in ("-C", "-sort")]
                inline = [x for f in flags for x in _args(f)]
                a = run_driver(BASE + inline)
                cases += 1
                for layout, render in CONFIG_LAYOUTS.items():
                    path = os.path.join(d, "cfg%d.txt" % cases)
                    with open(path, "w", newline="") as fh:
                        fh.write(render(inline))
                    b = run_driver(BASE + ["--config", path])
                    c = run_driver(["--config", path] + BASE)
                    cases += 2
                    if a.outcome != "ok" or a.key() != b.key() or a.key() != c.key():
                        return cases, {"flags": flags, "layout": layout, "file": render(inline), "inline-outcome": a.outcome, "config-outcome": b.outcome,
                                       "difference": [k for k in a.key() if a.key()[k] != b.key()[k] or a.key()[k] != c.key()[k]]}
                # the arguments split over two files
                half = len(inline) // 2
                while half < len(inline) and not inline[half].startswith("-"):
                    half += 1
                p1, p2 = os.path.join(d, "h1.txt"), os.path.join(d, "h2.txt")
                open(p1, "w").write(" ".join(inline[:half]) + "\n")
                open(p2, "w").write(" ".join(inline[half:]))
                b = run_driver(["--config", p1] + BASE + ["--config", p2])
                cases += 1
                if a.key() != b.key():
                    return cases, {"flags": flags, "layout": "two-config-files", "inline-outcome": a.outcome, "config-outcome": b.outcome,
                                   "difference": [k for k in a.key() if a.key()[k] != b.key()[k]]}
        finally:
            import shutil
            shutil.rmtree(d, ignore_errors=True)
        return cases, None
    return body


_enumerated("verif.driver.run#CONFIG:arguments-through---config-act-as-if-given-inline", ("C13",),
            "five groups covering every documented flag, each through a --config file in %d layouts (several arguments per line, one per line, "
            "with and without a final newline, tabs and CRLF, blank lines and padding; before and after the positional arguments; split "
            "over two --config files) vs inline" % len(CONFIG_LAYOUTS),
            _config(), ["verif.driver.run"])


# ---- rejections: an error message and a non-zero exit status, never another exception
REJECT = {
    "unknown-flag": BASE + ["-zzz", "1"],
    "flag-without-value": BASE + ["-l"],
    "config-without-file": BASE + ["--config"],
    "unreadable-config-file": BASE + ["--config", "/nonexistent/file"],
    "latrange-one-value": BASE + ["-latrange", "1"],
    "latrange-three-values": BASE + ["-latrange", "1,2,3"],
    "lonrange-one-value": BASE + ["-lonrange", "5"],
    "elevrange-three-values": BASE + ["-elevrange", "1,2,3"],
    "obsrange-one-value": BASE + ["-obsrange", "1"],
    "T-zero": BASE + ["-T", "0"],
    "T-negative": BASE + ["-T", "-3"],
    "q-above-1": ["A", "-m", "quantilescore", "-q", "1.5"],
    "q-below-0": ["A", "-m", "quantilescore", "-q", "-0.1"],
    # ... regardless of the other options: also when the metric does not use quantiles, before or after -m, in a list, with --list-*
    "q-above-1-with-a-metric-that-ignores-quantiles": BASE + ["-q", "1.5"],
    "q-above-1-before-the-metric": ["A", "B", "-q", "1.5", "-m", "mae"],
    "q-below-0-among-valid-levels": BASE + ["-q", "0.5,-0.2"],
    "q-range-reaching-above-1": ["A", "-q", "0:0.5:2", "-m", "rmse", "-x", "location"],
    "q-above-1-with-a-listing-option": ["A", "-q", "1.5", "--list-times"],
    "T-zero-with-Tx-time": BASE + ["-T", "0", "-Tx", "time"],
    "unknown-type": BASE + ["-type", "foo"],
    "unknown-axis": BASE + ["-x", "foo"],
    "unknown-Tx-axis": BASE + ["-Tx", "foo"],
    "unknown-aggregator": BASE + ["-agg", "foo"],
    "unknown-Tagg-aggregator": BASE + ["-Tagg", "foo"],
    "aggregator-class-name-that-is-not-a-documented-name": BASE + ["-agg", "quantile"],
    "invalid-input-file": ["BAD", "-m", "mae"],
    "invalid-climatology-file": BASE + ["-c", "BAD"],
    "vector-four-colon-parts": BASE + ["-l", "1:2:3:4"],
    "vector-letters": BASE + ["-l", "a,b"],
    "vector-empty-part": BASE + ["-l", "1::2"],
    "vector-empty-comma-part": BASE + ["-l", "1,,2"],
    "vector-zero-step": BASE + ["-l", "1:0:5"],
    "vector-lone-minus": BASE + ["-l", "-"],
    "vector-lone-dot": BASE + ["-l", "."],
    "vector-minus-inside-number": BASE + ["-l", "1-2"],
    "vector-trailing-minus": BASE + ["-o", "0-"],
    "vector-two-dots": BASE + ["-r", "1.2.3"],
    "unknown-maptype": BASE + ["-maptype", "foo"],
    "fs-one-value": BASE + ["-fs", "5"],
}


def _reject(name):
    def body():
        rec = run_driver(REJECT[name])
        ok = isinstance(rec.outcome, tuple) and rec.outcome[0] == "abort" and rec.outcome[1] not in (0, None) and rec.stdout.strip() != ""
        if not ok:
            return 1, {"argv": ["verif"] + REJECT[name], "outcome": rec.outcome, "stdout": rec.stdout[-200:]}
        return 1, None
    return body


for _n in REJECT:
    _enumerated("verif.driver.run#REJECT:%s" % _n, ("C13",), "one malformed command line: must print an error message and exit with non-zero status",
                _reject(_n), ["verif.driver.run", "verif.util.parse_numbers"])


# ----------------------------------------------------------------------------------------------
# util.parse_numbers: vector syntax
# ----------------------------------------------------------------------------------------------
def _model_range(a, s, b):
    """documented semantics of a:s:b (end point included), exact decimal arithmetic"""
    a, s, b = Fraction(a), Fraction(s), Fraction(b)
    out = []
    x = a
    while (s > 0 and x <= b) or (s < 0 and x >= b):
        out.append(float(x))
        x += s
    return out


def _parse_values():
    def body():
        cases = 0
        starts = ["0", "0.1", "1", "3", "-2", "0.5", "10"]
        steps = ["1", "2", "0.1", "0.5", "0.25", "-1", "-0.5", "3"]
        ends = ["0.9", "1", "3", "5", "-4", "2.5", "10", "0"]
        for a in starts:
            cases += 1
            if verif.util.parse_numbers(a) != [float(a)]:
                return cases, {"string": a, "got": verif.util.parse_numbers(a), "want": [float(a)]}
            for b in ends:
                for s in [None] + steps:
                    txt = "%s:%s" % (a, b) if s is None else "%s:%s:%s" % (a, s, b)
                    want = _model_range(a, s or "1", b)
                    got = [float(x) for x in verif.util.parse_numbers(txt)]
                    cases += 1
                    if len(got) != len(want) or any(abs(g - w) > 1e-6 for g, w in zip(got, want)):
                        return cases, {"string": txt, "got": got[:12], "want": want[:12]}
        # every magnitude of step: an end value just below / at / just above a grid point (the documented resolution is 1e-4)
        for a in ("0", "1325376000", "-50000", "2.5"):
            for s in ("86400", "20000", "10000", "0.001", "3", "-250", "1000000"):
                for k in (1, 2, 5):
                    g = Fraction(a) + k * Fraction(s)
                    for delta in ("-1", "-0.5", "-0.01", "0", "0.01", "0.5", "1"):
                        b = g + Fraction(delta) * (1 if Fraction(s) > 0 else -1) * (1 if abs(Fraction(s)) >= 3 else Fraction(1, 100000))
                        btxt = ("%.6f" % float(b)).rstrip("0").rstrip(".")
                        b = Fraction(btxt)
                        # inside the documented resolution the end point may or may not count
                        if 0 < (b - g) * (1 if Fraction(s) > 0 else -1) * -1 <= Fraction(1, 5000):
                            continue
                        txt = "%s:%s:%s" % (a, s, btxt)
                        want = _model_range(a, s, b)
                        got = [float(x) for x in verif.util.parse_numbers(txt)]
                        cases += 1
                        if len(got) != len(want) or any(abs(x - w) > 1e-6 * max(1.0, abs(w)) for x, w in zip(got, want)):
                            return cases, {"string": txt, "got": got[:8], "want": want[:8]}
        # comma lists combine the parts in order
        for txt, want in (("3,4:6,2:5:9,6", [3, 4, 5, 6, 2, 7, 6]), ("1,2,3", [1, 2, 3]), ("5:3", []), ("0.1:0.1:0.9", [round(0.1 * k, 7) for k in range(1, 10)])):
            got = [float(x) for x in verif.util.parse_numbers(txt)]
            cases += 1
            if len(got) != len(want) or any(abs(g - w) > 1e-6 for g, w in zip(got, want)):
                return cases, {"string": txt, "got": got, "want": want}
        return cases, None
    return body


_enumerated("verif.util.parse_numbers#BOUNDED:a,a:b,a:step:b-include-the-end-point", ("C13",),
            "full grid of 7 start x 9 step (incl. default, negative, fractional) x 8 end decimal values against an exact-decimal model, plus comma combinations",
            _parse_values(), ["verif.util.parse_numbers"])


def _parse_dates():
    def body():
        cases = 0
        z0, z1 = days_from_civil(2011, 12, 20), days_from_civil(2013, 1, 12)
        for z in range(z0, z1 + 1, 1):
            for span in (0, 1, 3, 11, 40):
                for step in (None, 1, 2, 7):
                    y, m, d = civil_from_days(z)
                    y2, m2, d2 = civil_from_days(z + span)
                    a, b = y * 10000 + m * 100 + d, y2 * 10000 + m2 * 100 + d2
                    txt = "%d:%d" % (a, b) if step is None else "%d:%d:%d" % (a, step, b)
                    want = []
                    k = z
                    while k <= z + span:
                        yy, mm, dd = civil_from_days(k)
                        want.append(yy * 10000 + mm * 100 + dd)
                        k += step or 1
                    got = verif.util.parse_numbers(txt, True)
                    cases += 1
                    if list(got) != want:
                        return cases, {"string": txt, "got": list(got)[:10], "want": want[:10]}
        return cases, None
    return body


_enumerated("verif.util.parse_numbers#BOUNDED:date-ranges-step-by-calendar-days", ("C13",),
            "every start day 2011-12-20..2013-01-12 (a leap year, all month ends) x spans {0,1,3,11,40} days x steps {default,1,2,7}",
            _parse_dates(), ["verif.util.parse_numbers", "verif.util.get_date"])


def _parse_tokens():
    def body():
        cases = 0
        alphabet = "-01.:,"
        for n in range(1, 6):
            for tup in itertools.product(alphabet, repeat=n):
                txt = "".join(tup)
                cases += 1
                try:
                    with contextlib.redirect_stdout(io.StringIO()):
                        r = verif.util.parse_numbers(txt)
                    if not all(isinstance(x, (float, int, _np.floating, _np.integer)) for x in r):
                        return cases, {"string": txt, "got": repr(r)[:100]}
                except SystemExit as e:
                    if e.code in (0, None):
                        return cases, {"string": txt, "got": "exit status %r" % (e.code,)}
                except Exception as e:
                    return cases, {"string": txt, "got": "%s: %s" % (type(e).__name__, e)}
        return cases, None
    return body


_enumerated("verif.util.parse_numbers#BOUNDED:every-string-over-the-accepted-alphabet-parses-or-is-rejected", ("C13",),
            "every string of length 1..5 over the alphabet {-,0,1,.,:,','} (9330 strings, exhaustive): a list of numbers or an error exit, never another exception",
            _parse_tokens(), ["verif.util.parse_numbers"])


def _parse_foreign():
    """a vector argument containing any character outside the documented comma/colon decimal syntax is rejected, also when
    Python's float() would accept the token (1e1, +3, 1_0, nan, inf, ' 1', full-width digits)"""
    def body():
        cases = 0
        good = "1.:,-"
        foreign = "eE+_naif \t"
        extra = ["\uff11", "\u0663", "x", "/", ";", "1e1", "+3", "1_0", "nan", "inf", "infinity", "-inf", "NaN", "1E5", "0:2:infinity", "1,nan", "0:inf",
                 "\uff11\uff12", "1 ", " 1", "1\n", "0x10", "1j", "1e-1", "1.e1", ".e1"]
        strings = list(extra)
        for n in range(1, 5):
            for tup in itertools.product(good + foreign, repeat=n):
                if any(ch in foreign for ch in tup):
                    strings.append("".join(tup))
        for txt in strings:
            cases += 1
            for is_date in (False, True):
                try:
                    with contextlib.redirect_stdout(io.StringIO()):
                        r = verif.util.parse_numbers(txt, is_date)
                    return cases, {"string": txt, "is_date": is_date, "got": "accepted: " + repr(r)[:100]}
                except SystemExit as e:
                    if e.code in (0, None):
                        return cases, {"string": txt, "is_date": is_date, "got": "exit status %r" % (e.code,)}
                except Exception as e:
                    return cases, {"string": txt, "is_date": is_date, "got": "%s: %s" % (type(e).__name__, e)}
        return cases, None
    return body


_enumerated("verif.util.parse_numbers#BOUNDED:every-string-with-a-character-outside-the-documented-syntax-is-rejected", ("C13",),
            "every string of length 1..4 over {1 . : , -} and {e E + _ n a i f space tab} containing at least one of the latter (exhaustive), plus "
            "26 tokens that Python's float() accepts (1e1, +3, 1_0, nan, inf, full-width digits, ...): error exit with non-zero status, never a value, never another exception",
            _parse_foreign(), ["verif.util.parse_numbers"])


# ----------------------------------------------------------------------------------------------
# C17: an appearance option can only take effect if output.py reads the attribute the driver sets
# ----------------------------------------------------------------------------------------------
def attributes_read_by_output():
    src = inspect.getsource(verif.output)
    tree = ast.parse(src)
    reads = set()
    for node in ast.walk(tree):
        if isinstance(node, ast.Attribute) and isinstance(node.value, ast.Name) and node.value.id == "self" and isinstance(node.ctx, ast.Load):
            reads.add(node.attr)
    return reads


def _defuse(flag):
    def body():
        val, dest, want = OPTIONS[flag]
        base = run_driver(BASE)
        rec = run_driver(BASE + _args(flag))
        changed = [k[3:] for k in _diff(base, rec) if k.startswith("pl.")]
        reads = attributes_read_by_output()
        dead = [a for a in changed if a not in reads]
        if not changed and dest[0] == "pl":
            return 1, {"flag": flag, "note": "no attribute of the output object changed"}
        if dead:
            return 1, {"flag": flag, "attributes-set-by-the-driver-but-read-nowhere-in-output.py": dead}
        return 1, None
    return body


for _f in C17_FLAGS:
    if OPTIONS[_f][1][0] in ("pl", "pl+metric"):
        _enumerated("verif.driver.run#FRAME:%s-reaches-an-attribute-that-output.py-reads" % _f, ("C17",),
                    "def-use over the AST of verif/output.py for the attribute(s) the driver sets for this flag", _defuse(_f),
                    ["verif.driver.run", "verif.output.Output"])


# ----------------------------------------------------------------------------------------------
# -m selects the metric / diagram of that name; threshold and quantile defaults; --list-* ; field lookups
# ----------------------------------------------------------------------------------------------
def _metric_selection():
    def body():
        cases = 0
        special = {"autocorr": "Auto", "autocov": "Auto"}
        for name, cls in verif.metric.get_all():
            if not cls.is_valid() or cls.__module__ != "verif.metric":
                continue
            try:
                cls()
            except TypeError:
                continue            # classes that need constructor arguments are not selectable by name
            key = name.lower()
            args = ["A", "B", "-m", key, "-r", "1,2", "-q", "0.1,0.9"]
            rec = run_driver(args)
            cases += 1
            if rec.outcome != "ok" or rec.pl_class != "Standard" or rec.metric_agg is None:
                return cases, {"argv": args, "outcome": rec.outcome, "output-class": rec.pl_class}
            m = verif.metric.get(key)
            if type(m) is not cls:
                return cases, {"name": key, "metric.get-returned": type(m).__name__}
        for name, cls in verif.output.get_all():
            if not cls.is_valid() or cls.__module__ != "verif.output" or cls.__name__ in ("Standard", "Hist", "Sort", "Auto", "AutoCorr", "AutoCov"):
                continue
            key = name.lower()
            rec = run_driver(["A", "B", "-m", key, "-r", "1,2", "-q", "0.1,0.9"])
            cases += 1
            if rec.outcome == "ok" and rec.pl_class != cls.__name__ and not issubclass(cls, getattr(verif.output, rec.pl_class)):
                return cases, {"name": key, "output-class": rec.pl_class, "want": cls.__name__}
        for key, want in special.items():
            rec = run_driver(["A", "B", "-m", key])
            cases += 1
            if rec.pl_class != want:
                return cases, {"name": key, "output-class": rec.pl_class, "want": want}
        # an unknown name is taken as the name of an other-score field
        rec = run_driver(["A", "B", "-m", "myscore"])
        cases += 1
        if rec.pl_class != "Standard":
            return cases, {"name": "myscore", "output-class": rec.pl_class}
        return cases, None
    return body


_enumerated("verif.driver.run#WIRE:-m-selects-the-metric-or-diagram-of-that-name", ("C13",),
            "every selectable metric class of verif.metric and every diagram class of verif.output (complete), plus the two autocorrelation names and an other-score name",
            _metric_selection(), ["verif.driver.run", "verif.metric.get"])


def _defaults():
    def body():
        cases = 0
        # deterministic thresholds: 20 values evenly spaced between the smallest and largest of obs and fcst (stub: 0..2)
        rec = run_driver(["A", "B", "-m", "ets"])
        cases += 1
        got = rec.pl.get("thresholds") if rec.pl else None
        want = [float(x) for x in _np.linspace(0, 2, 20)]
        if got is None or [round(float(x), 9) for x in got] != [round(x, 9) for x in want]:
            return cases, {"argv": "-m ets (no -r)", "thresholds": None if got is None else [float(x) for x in got], "want": want}
        # ... also with a single input file
        rec = run_driver(["A", "-m", "ets"])
        cases += 1
        got = rec.pl.get("thresholds") if rec.pl else None
        if got is None or [round(float(x), 9) for x in got] != [round(x, 9) for x in want]:
            return cases, {"argv": "A -m ets (no -r, one input)", "outcome": str(rec.outcome), "thresholds": None if got is None else [float(x) for x in got], "want": want}
        # probabilistic thresholds: those stored in every file
        rec = run_driver(["A", "B", "-m", "bs"])
        cases += 1
        got = rec.pl.get("thresholds") if rec.pl else None
        if got is None or [float(x) for x in got] != [1.0, 2.0]:
            return cases, {"argv": "-m bs (no -r)", "thresholds": None if got is None else [float(x) for x in got], "want": [1.0, 2.0]}
        # quantiles: those stored in every file
        rec = run_driver(["A", "B", "-m", "quantilescore"])
        cases += 1
        got = rec.pl.get("thresholds") if rec.pl else None
        if got is None or [float(x) for x in got] != [0.1, 0.9]:
            return cases, {"argv": "-m quantilescore (no -q)", "levels": None if got is None else [float(x) for x in got], "want": [0.1, 0.9]}
        # given values win over the defaults, for any position of the option
        for args in (["A", "B", "-m", "ets", "-r", "3,4"], ["-r", "3,4", "A", "B", "-m", "ets"]):
            rec = run_driver(args)
            cases += 1
            if [float(x) for x in rec.pl.get("thresholds")] != [3.0, 4.0]:
                return cases, {"argv": args, "thresholds": [float(x) for x in rec.pl.get("thresholds")]}
        # -agg with a number selects that quantile of the values
        rec = run_driver(BASE + ["-agg", "0.3"])
        cases += 1
        if rec.metric_agg != ["Quantile", {"quantile": 0.3}]:
            return cases, {"argv": "-agg 0.3", "aggregator": rec.metric_agg}
        # too few / too many quantiles for a metric that needs exactly two
        for args in (["A", "-m", "spread", "-q", "0.1"], ["A", "-m", "spread", "-q", "0.1,0.5,0.9"]):
            rec = run_driver(args)
            cases += 1
            if not (isinstance(rec.outcome, tuple) and rec.outcome[0] == "abort"):
                return cases, {"argv": args, "outcome": rec.outcome}
        return cases, None
    return body


_enumerated("verif.driver.run#WIRE:threshold-and-quantile-defaults", ("C13",),
            "default thresholds for a categorical metric, a probabilistic metric and a quantile metric; explicit -r in two positions; -agg <number>; quantile-count limits",
            _defaults(), ["verif.driver.run"])


def _lists():
    def body():
        cases = 0
        import verif.location

        class ListData(RecData):
            def __init__(self, inputs, **kw):
                RecData.__init__(self, inputs, **kw)
                self.times = _np.array([1325376000, 1325397600 + 61])
                self.locations = [verif.location.Location(3, 60.5, 10.25, 100.0), verif.location.Location(18, -33.0, 151.0, 5.5)]
        want = {"--list-times": "1325376000\n1325397661\n\n", "--list-dates": "20120101 00:00:00\n20120101 06:01:01\n\n",
                "--list-thresholds": "Thresholds: 1 2 \n", "--list-quantiles": "Quantiles: 0.1 0.9 \n",
                "--list-locations": "    id     lat     lon    elev\n     3   60.50   10.25   100.0\n    18  -33.00  151.00     5.5\n\n"}
        for flag, text in want.items():
            for args in (["A", flag], [flag, "A", "-m", "mae"]):
                with engine.patched(verif.data, Data=ListData):
                    import contextlib as _c
                    buf = io.StringIO()
                    RecData.calls = []
                    with engine.patched(verif.input, get_input=lambda f: StubIn(f)), _c.redirect_stdout(buf):
                        try:
                            verif.driver.run(["verif"] + args)
                        except SystemExit:
                            pass
                cases += 1
                if buf.getvalue() != text:
                    return cases, {"argv": args, "got": buf.getvalue(), "want": text}
        rec = run_driver(["--list-times"])
        cases += 1
        if not (isinstance(rec.outcome, tuple) and rec.outcome[0] == "abort"):
            return cases, {"argv": ["--list-times"], "outcome": rec.outcome}
        return cases, None
    return body


_enumerated("verif.driver.run#WIRE:--list-options-print-the-verified-dimensions", ("C13", "C03"),
            "the five --list-* options in two argument positions against a stub dataset; without files they must stop with an error",
            _lists(), ["verif.driver.run"])


def _field_lookup():
    def body():
        cases = 0
        for name, want in (("obs", verif.field.Obs), ("fcst", verif.field.Fcst), ("pit", verif.field.Pit), ("spread", verif.field.Spread)):
            cases += 1
            if type(verif.field.get(name)) is not want:
                return cases, {"name": name, "got": type(verif.field.get(name)).__name__}
        for name, cls, attr, val in (("threshold:5", verif.field.Threshold, "threshold", 5.0), ("Threshold:0.25", verif.field.Threshold, "threshold", 0.25),
                                     ("quantile:0.9", verif.field.Quantile, "quantile", 0.9), ("Quantile:.5", verif.field.Quantile, "quantile", 0.5)):
            f = verif.field.get(name)
            cases += 1
            if type(f) is not cls or getattr(f, attr) != val:
                return cases, {"name": name, "got": repr(getattr(f, "__dict__", f))}
        for name in ("myscore", "precip_rate", "Obs2"):
            f = verif.field.get(name)
            cases += 1
            if type(f) is not verif.field.Other or f.name() != name:
                return cases, {"name": name, "got": type(f).__name__}
        return cases, None
    return body


_enumerated("verif.field.get#BOUNDED:documented-field-names", ("C13",), "the four plain names, threshold:<t> / quantile:<q> in both spellings, three other-field names",
            _field_lookup(), ["verif.field.get"])
