"""Contracts for the text reader of verif/input.py (C09; token cleaning also C04).

Deductive: Text._clean under the assumed contract of float() (for every string: either ValueError or a float value).
Bounded (labelled): the column classifiers over a header vocabulary, and Text.__init__ against a ghost abstract
dataset (a set of cells (time, lead time, location) -> {column -> token}) on generated well-formed files."""
import contextlib
import io
import itertools
import os
import random
import shutil
import tempfile

import numpy as _np

import verif.input
import verif.util

from pyvc import sym, engine
from pyvc.framework import Obligation, register, Bag, FIN, NAN, PINF, NINF, ALL_KINDS
from .axis import _enumerated

MOD = [verif.input]


# ------------------------------------------------------------------ Text._clean (proof, float() stubbed by its contract)
def _clean():
    def setup(G):
        return Bag(numeric=G.boolean("token_is_numeric"), v=G.num("v", kinds=ALL_KINDS, numpy=False))

    def call(inp):
        tok = "12.5" if not hasattr(inp.v, "k") else "<token>"

        def float_contract(s):
            # float(str): ValueError for a non-numeric token, otherwise the token's value (any float incl. nan/inf)
            if not inp.numeric:
                raise ValueError("could not convert string to float")
            return inp.v
        t = object.__new__(verif.input.Text)
        with engine.patched(verif.input, float=float_contract):
            return t._clean(tok)

    def post(S, inp, out):
        if not bool(inp.numeric):
            return [("non-numeric-token-is-missing", S.isnan(out))]
        return [("-999-is-missing,every-other-number-is-itself", S.ite(S.same(inp.v, -999), S.isnan(out), S.same(out, inp.v)))]
    return setup, call, post


s, c, p = _clean()
o = register(Obligation("verif.input.Text._clean#POST:token-cleaning", ("C09", "C04"), s, c, p, modules=MOD, shadows=False,
                        assumptions=["float(token): raises ValueError for a non-numeric token, otherwise returns the token's value (assumed contract of the builtin)"]))
o.no_unroll = True


# ------------------------------------------------------------------ column classification (bounded: vocabulary)
VOCAB = ["obs", "fcst", "pit", "id", "location", "lat", "lon", "elev", "altitude", "hour", "date", "unixtime", "leadtime", "offset",
         "p0", "p0.5", "p10", "p-2.5", "p1e3", "q0.1", "q0.9", "q0", "q1", "e0", "e1", "e12", "p", "q", "e", "px", "qual", "extra", "myscore",
         "precip", "quality1", "e1x", "p1.2.3", "elevx", "q0.5.1", "obs2", "pit2"]


def _classify():
    def body():
        t = object.__new__(verif.input.Text)
        cases = 0

        def isnum(s):
            try:
                float(s)
                return True
            except ValueError:
                return False
        for w in VOCAB:
            cases += 1
            q = t._get_quantile_fields([w]) == [w]
            th = t._get_threshold_fields([w]) == [w]
            en = t._get_ens_fields([w]) == [w]
            ot = t._get_other_fields([w]) == [w]
            regular = w in t.get_regular_names()
            want_q = w[0] == "q" and isnum(w[1:])
            want_t = w[0] == "p" and w != "pit" and isnum(w[1:])
            want_e = w[0] == "e" and w != "elev" and isnum(w[1:])
            want_o = not regular and not (want_q or want_t or want_e)
            if (q, th, en, ot) != (want_q, want_t, want_e, want_o) or sum([q, th, en]) > 1:
                return cases, {"header-word": w, "got(q,p,e,other)": [q, th, en, ot], "want": [want_q, want_t, want_e, want_o]}
        return cases, None
    return body


_enumerated("verif.input.Text.column-classifiers#BOUNDED:header-vocabulary", ("C09",),
            "%d header words (documented names, p/q/e columns with integer, decimal, negative and exponent values, near misses)" % len(VOCAB),
            _classify(), ["verif.input.Text._get_quantile_fields", "verif.input.Text._get_threshold_fields", "verif.input.Text._get_ens_fields",
                          "verif.input.Text._get_other_fields", "verif.input.Input.get_regular_names"])


# ------------------------------------------------------------------ Text.__init__ against the ghost abstract dataset (bounded)
MISSING_TOKENS = ["-999", "nan", "NA", "missing"]


def _gen_file(rnd):
    """a random well-formed file: returns (text, expectation dict)"""
    nt, nl, ns = rnd.choice([1, 2]), rnd.choice([1, 2]), rnd.choice([1, 2, 3])
    days = rnd.sample([20120101, 20120102, 20120131, 20120229, 20121231], nt)
    time_style = rnd.choice(["date", "date+hour", "unixtime"])
    hours = [rnd.choice([0, 6, 18]) for _ in range(nt)] if time_style == "date+hour" else [0] * nt
    unix = [verif.util.date_to_unixtime(d) + h * 3600 for d, h in zip(days, hours)]
    if len(set(unix)) < nt:
        unix = [u + 3600 * i for i, u in enumerate(unix)]
        time_style = "unixtime"
    lead_col = rnd.choice(["leadtime", "offset", None]) if nl == 1 else rnd.choice(["leadtime", "offset"])
    leads = sorted(rnd.sample([0.0, 6.0, 12.0, 30.5], nl)) if lead_col else [0.0]
    nl = len(leads)
    id_col = rnd.choice(["location", "id"])
    ids = rnd.sample([3, 18, 100, 7], ns)
    meta = {i: (round(50 + i / 7.0, 3), round(-10.5 + i / 3.0, 3), float(10 * i)) for i in ids}
    use_lat, use_lon = rnd.random() < 0.8, rnd.random() < 0.8
    # variants: "jitter" = the rows of one id spell its coordinates slightly differently (below the reader's 1e-4 conflict tolerance);
    #           "noid"   = no location/id column, sites told apart by their coordinates, two of them closer than 1e-5
    variant = rnd.choice(["plain", "plain", "jitter", "noid"])
    if variant == "noid":
        use_lat = True
        if ns >= 2:
            a, b = ids[0], ids[1]
            meta[b] = (meta[a][0] + 2e-6, meta[a][1], meta[a][2])
    elev_col = rnd.choice(["altitude", "elev", None])
    data_cols = []
    if rnd.random() < 0.85: data_cols.append("obs")
    if rnd.random() < 0.85: data_cols.append("fcst")
    if rnd.random() < 0.4: data_cols.append("pit")
    thr = rnd.sample([0.5, 10.0, -2.5, 0.0], rnd.choice([0, 0, 1, 2]))
    qs = rnd.sample([0.1, 0.5, 0.9], rnd.choice([0, 0, 1, 2]))
    mem = list(range(rnd.choice([0, 0, 2, 3])))
    others = rnd.sample(["myscore", "quality1", "precip"], rnd.choice([0, 0, 1, 2]))
    data_cols += ["p%g" % t for t in thr] + ["q%g" % q for q in qs] + ["e%d" % m for m in mem] + others
    if not any(c in ("obs", "fcst") or c[0] in "pq" for c in data_cols):
        data_cols.append("obs")
    coord_cols = {"date": ["date"], "date+hour": ["date", "hour"], "unixtime": ["unixtime"]}[time_style]
    if lead_col: coord_cols.append(lead_col)
    if variant != "noid":
        coord_cols.append(id_col)
    if use_lat: coord_cols.append("lat")
    if use_lon: coord_cols.append("lon")
    if elev_col: coord_cols.append(elev_col)
    header = coord_cols + data_cols
    rnd.shuffle(header)
    cells = {}
    rows = []
    for ti in range(nt):
        for li in range(nl):
            for s in ids:
                if rnd.random() < 0.2:
                    continue        # combination absent from the file
                vals = {}
                for c in data_cols:
                    if rnd.random() < 0.15:
                        vals[c] = rnd.choice(MISSING_TOKENS)
                    elif c == "pit" or c[0] in "p" and c != "precip":
                        vals[c] = "%g" % round(rnd.random(), 3)
                    else:
                        vals[c] = rnd.choice(["%g" % round(rnd.uniform(-20, 40), 2), "%d" % rnd.randint(-5, 30), "1e2", "0"])
                cells[(unix[ti], leads[li], s)] = vals
                row = []
                for h in header:
                    if h == "date": row.append(str(days[ti]) if time_style != "unixtime" else "")
                    elif h == "hour": row.append(str(hours[ti]))
                    elif h == "unixtime": row.append(str(unix[ti]))
                    elif h in ("leadtime", "offset"): row.append("%g" % leads[li])
                    elif h in ("location", "id"): row.append(str(s))
                    elif h == "lat" and variant == "noid": row.append("%.6f" % meta[s][0])
                    elif h == "lat": row.append("%g" % meta[s][0] if variant == "plain" else "%.5f" % (meta[s][0] + rnd.choice([0.0, 3e-5, -4e-5])))
                    elif h == "lon": row.append("%g" % meta[s][1] if variant != "jitter" else "%.5f" % (meta[s][1] + rnd.choice([0.0, 3e-5, -4e-5])))
                    elif h in ("altitude", "elev"): row.append("%g" % meta[s][2])
                    else: row.append(vals[h])
                rows.append(row)
    if not rows:
        return None
    rnd.shuffle(rows)
    sep = rnd.choice([" ", "  ", "\t"])
    lines = []
    varname, units, x0, x1 = None, None, None, None
    if rnd.random() < 0.6:
        varname = rnd.choice(["Precip", "Air temperature"]); lines.append("# variable: " + varname)
    if rnd.random() < 0.6:
        units = rnd.choice(["mm", "^oC"]); lines.append("# units: " + units)
    if rnd.random() < 0.3:
        x0 = 0.0; lines.append("# x0: 0")
    if rnd.random() < 0.3:
        x1 = 100.0; lines.append("# x1: 100")
    lines.append(sep.join(header))
    for i, r in enumerate(rows):
        # comment lines anywhere in the file (also an empty comment) are not data
        if rnd.random() < 0.15:
            lines.append(rnd.choice(["# checked by hand", "#", "# ", "#comment without a space", "# obs fcst 1 2 3"]))
        lines.append(sep.join(r))
    text = "\n".join(lines) + "\n"
    exp = dict(cells=cells, unix=sorted(set(k[0] for k in cells)), leads=sorted(set(k[1] for k in cells)), ids=sorted(set(k[2] for k in cells)),
               meta=meta, use_lat=use_lat, use_lon=use_lon, elev=elev_col is not None, data_cols=data_cols, thr=thr, qs=qs, mem=mem, others=others,
               varname=varname, units=units, x0=x0, x1=x1, variant=variant)
    if variant == "noid":
        exp["meta"] = {i: (float("%.6f" % m[0]), m[1], m[2]) for i, m in meta.items()}
    return text, exp


def _tok(s):
    try:
        v = float(s)
        return float("nan") if v == -999 else v
    except ValueError:
        return float("nan")


def _same(a, b):
    return (a != a and b != b) or abs(a - b) <= 1e-9 * max(1.0, abs(a), abs(b))


def _check_file(text, exp, path):
    with open(path, "w") as fh:
        fh.write(text)
    with contextlib.redirect_stdout(io.StringIO()):
        inp = verif.input.Text(path)
    if [float(t) for t in inp.times] != [float(t) for t in exp["unix"]]:
        return "times %r, want %r" % (list(inp.times), exp["unix"])
    if [float(t) for t in inp.leadtimes] != exp["leads"]:
        return "leadtimes %r, want %r" % (list(inp.leadtimes), exp["leads"])
    got_ids = [float(l.id) for l in inp.locations]
    tol = 1.0001e-4 if exp.get("variant") == "jitter" else 0.0

    def near(a, b):
        return _same(a, b) or abs(a - b) <= tol
    if exp.get("variant") == "noid":
        # no id column: one location per distinct coordinate triple, each with an id of its own
        if len(got_ids) != len(exp["ids"]) or len(set(got_ids)) != len(got_ids) or any(i != i for i in got_ids):
            return "locations without an id column: ids %r for %d distinct sites" % (got_ids, len(exp["ids"]))
        spos = {}
        for sname in exp["ids"]:
            lat, lon, elev = exp["meta"][sname]
            want = (lat, lon if exp["use_lon"] else 0.0, elev if exp["elev"] else 0.0)
            hits = [i for i, l in enumerate(inp.locations) if _same(l.lat, want[0]) and _same(l.lon, want[1]) and _same(l.elev, want[2])]
            if len(hits) != 1:
                return "site %r at %r: %d matching locations among %r" % (sname, want, len(hits), [(l.lat, l.lon, l.elev) for l in inp.locations])
            spos[float(sname)] = hits[0]
    else:
        if sorted(got_ids) != [float(i) for i in exp["ids"]]:
            return "location ids %r, want %r" % (got_ids, exp["ids"])
        for l in inp.locations:
            lat, lon, elev = exp["meta"][int(l.id)]
            want = (lat if exp["use_lat"] else 0.0, lon if exp["use_lon"] else 0.0, elev if exp["elev"] else 0.0)
            if not (near(l.lat, want[0]) and near(l.lon, want[1]) and _same(l.elev, want[2])):
                return "metadata of location %r: (%r,%r,%r), want %r" % (l.id, l.lat, l.lon, l.elev, want)
        spos = {float(l.id): i for i, l in enumerate(inp.locations)}

    def cell(col, t, l, s):
        v = exp["cells"].get((t, l, s))
        return float("nan") if v is None else _tok(v[col])
    for name, arr in (("obs", inp.obs), ("fcst", inp.fcst), ("pit", inp.pit)):
        if name not in exp["data_cols"]:
            if arr is not None:
                return "%s present although the file has no such column" % name
            continue
        if arr is None:
            return "%s is None although the file has the column" % name
        for ti, t in enumerate(exp["unix"]):
            for li, l in enumerate(exp["leads"]):
                for s in exp["ids"]:
                    if not _same(arr[ti, li, spos[float(s)]], cell(name, t, l, s)):
                        return "%s at (time %r, leadtime %r, location %r) is %r, want %r" % (name, t, l, s, arr[ti, li, spos[float(s)]], cell(name, t, l, s))
    for levels, got_levels, arr, prefix in ((exp["thr"], inp.thresholds, inp.threshold_scores, "p"), (exp["qs"], inp.quantiles, inp.quantile_scores, "q"),
                                            ([float(m) for m in exp["mem"]], getattr(inp, "members", []), inp.ensemble, "e")):
        if sorted(float(x) for x in got_levels) != sorted(float(x) for x in levels):
            return "%s-levels %r, want %r" % (prefix, list(got_levels), levels)
        for lv in levels:
            k = [float(x) for x in got_levels].index(float(lv))
            col = prefix + ("%g" % lv if prefix != "e" else "%d" % lv)
            for ti, t in enumerate(exp["unix"]):
                for li, l in enumerate(exp["leads"]):
                    for s in exp["ids"]:
                        if not _same(arr[ti, li, spos[float(s)], k], cell(col, t, l, s)):
                            return "column %s at (time %r, leadtime %r, location %r) is %r, want %r" % (col, t, l, s, arr[ti, li, spos[float(s)], k], cell(col, t, l, s))
    # (a pit column is additionally listed among the other fields by the reader: redundant, not a misreading)
    if sorted(set(inp.other_fields) - {"pit"}) != sorted(exp["others"]):
        return "other fields %r, want %r" % (sorted(inp.other_fields), sorted(exp["others"]))
    for name in exp["others"]:
        arr = inp.other_score(name)
        for ti, t in enumerate(exp["unix"]):
            for li, l in enumerate(exp["leads"]):
                for s in exp["ids"]:
                    if not _same(arr[ti, li, spos[float(s)]], cell(name, t, l, s)):
                        return "other field %s at (time %r, leadtime %r, location %r) is %r, want %r" % (name, t, l, s, arr[ti, li, spos[float(s)]], cell(name, t, l, s))
    v = inp.variable
    if exp["varname"] is not None and v.name != exp["varname"]:
        return "variable name %r, want %r" % (v.name, exp["varname"])
    if exp["units"] is not None and v.units != exp["units"]:
        return "units %r, want %r" % (v.units, exp["units"])
    if v.x0 != exp["x0"] or v.x1 != exp["x1"]:
        return "x0/x1 %r/%r, want %r/%r" % (v.x0, v.x1, exp["x0"], exp["x1"])
    return None


def _text_files():
    def body():
        seed = int(os.environ.get("VERIF_SEED", "0"))
        n = 40000 if os.environ.get("PYVC_TIER") == "thorough" else 4000
        rnd = random.Random(seed)
        tmp = tempfile.mkdtemp(prefix="pyvc.txt.", dir="/var/tmp")
        cases = 0
        try:
            path = os.path.join(tmp, "file.txt")
            while cases < n:
                g = _gen_file(rnd)
                if g is None:
                    continue
                text, exp = g
                cases += 1
                try:
                    err = _check_file(text, exp, path)
                except SystemExit:
                    err = "the reader stopped with an error exit on a well-formed file"
                except Exception as e:
                    err = "%s: %s" % (type(e).__name__, e)
                if err:
                    return cases, {"problem": err, "file": text[:1500]}
        finally:
            shutil.rmtree(tmp, ignore_errors=True)
        return cases, None
    return body


_enumerated("verif.input.Text.__init__#BOUNDED:every-value-at-its-own-coordinate", ("C09", "C02"),
            "seeded random well-formed files: <= 2 times x 2 lead times x 3 locations, any column order, date[+hour]|unixtime, leadtime|offset|none, location|id, "
            "optional lat/lon/altitude|elev, obs/fcst/pit/p*/q*/e*/other columns, ~20% absent combinations, ~15% missing-value tokens, shuffled rows, three "
            "separators, metadata comment lines; 4000 files (quick) / 40000 (thorough)",
            _text_files(), ["verif.input.Text.__init__"])
