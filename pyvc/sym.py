"""pyvc.sym -- symbolic value domains for shadow execution of the real verif functions.

SNum  : extended real scalar  (kind in {FIN, NAN, PINF, NINF, MASKED}, value: z3 Real/Int)
SBool : boolean scalar (z3 Bool); __bool__ forks the path through the engine
SArr  : n-dimensional symbolic array over generic index domains (axes), with selection
        (boolean filtering), numpy.ma mask, in-place mutation through a shared Store.
Atoms : reductions (sums, counts, opaque functionals) kept symbolic, unified by congruence.

Assumption A1: floating point is treated as exact real arithmetic with IEEE special values.
"""
import itertools
import z3

FIN, NAN, PINF, NINF, MASKED = 0, 1, 2, 3, 4
CONGRUENCE_TIMEOUT_MS = -1      # engine.ABS_ONLY: congruence checks consult the linear abstraction only
KIND_TIMEOUT_MS = 2000          # kind normalisation: abstraction first, then the full solver briefly
KNAMES = {FIN: "fin", NAN: "nan", PINF: "+inf", NINF: "-inf", MASKED: "masked"}


class Unsupported(Exception):
    """The shim has no model for what the code just did: the run is undecided, never a violation."""


class Abort(Exception):
    """verif.util.error was called (prints a message and exits with status 1)."""
    def __init__(self, message=""):
        Exception.__init__(self, message)
        self.message = message


class PathInfeasible(Exception):
    pass


# ----------------------------------------------------------------------------------------------
# Context (one per shadow run); set by the engine
# ----------------------------------------------------------------------------------------------
class Ctx(object):
    def __init__(self):
        self.reset_run()
        self.engine = None
        self.unroll = 0         # >0: free axes get this concrete size and sums are written out (witness search)

    def reset_run(self):
        self.loops = []         # symbolic loops executed at a generic index: (k, lo, hi)
        self.ranges = {}        # generic index id -> its range condition
        self.equated = set()
        self.atom_deps = {}     # id of an atom constant -> ids of the generic indices its value depends on
        self.expanding = []     # atoms whose summand is being re-evaluated (guards against mutual re-evaluation)
        self.all_axes = []
        self.axis_hooks = {}    # id(axis) -> [fn(index term)]: facts instantiated at every index term of the axis
        self.axis_terms = {}    # id(axis) -> [index terms seen]
        self.counter = itertools.count()
        self.pc = []            # path condition (z3 Bool)
        self.facts = []         # background facts: ranges of generic indices, atom facts, axioms
        self.atoms = []         # registry of reduction atoms
        self.fn_apps = {}       # uninterpreted function applications (for axiom instantiation)
        self.trace = []         # human readable notes
        self.assumed = set()    # names of shim contracts / uninterpreted functions used
        self.ghost = {}         # ghost state of a path (e.g. the set-like arrays created by pyvc.setarr)
        self.set_theory = False  # np.sort / np.unique / np.intersect1d / np.isin modelled as set-like arrays (pyvc.setarr)

    def fresh(self, prefix, sort="real"):
        n = next(self.counter)
        name = "%s!%d" % (prefix, n)
        if sort == "real":
            return z3.Real(name)
        if sort == "int":
            return z3.Int(name)
        if sort == "bool":
            return z3.Bool(name)
        raise ValueError(sort)


CTX = Ctx()


def rng(idx):
    """range hypothesis of a tuple of generic indices"""
    out = []
    for i in idx:
        r = CTX.ranges.get(i.get_id()) if hasattr(i, "get_id") else None
        if r is not None:
            out.append(r)
    if not out:
        return z3.BoolVal(True)
    return z3.And(*out) if len(out) > 1 else out[0]


def use(name):
    CTX.assumed.add(name)


# ----------------------------------------------------------------------------------------------
# z3 helpers with constant folding
# ----------------------------------------------------------------------------------------------
def is_py(x):
    return isinstance(x, (bool, int, float))


def zbool(b):
    if isinstance(b, SBool):
        return b.z
    if isinstance(b, bool):
        return z3.BoolVal(b)
    if hasattr(b, "dtype") and hasattr(b, "item") and not isinstance(b, SArr):
        return z3.BoolVal(bool(b))
    if z3.is_bool(b):
        return b
    raise TypeError("not a boolean: %r" % (b,))


def And(*xs):
    out = []
    for x in xs:
        if x is True:
            continue
        if x is False:
            return False
        if z3.is_true(x):
            continue
        if z3.is_false(x):
            return False
        out.append(x)
    if not out:
        return True
    if len(out) == 1:
        return out[0]
    return z3.And(*out)


def Or(*xs):
    out = []
    for x in xs:
        if x is False:
            continue
        if x is True:
            return True
        if z3.is_false(x):
            continue
        if z3.is_true(x):
            return True
        out.append(x)
    if not out:
        return False
    if len(out) == 1:
        return out[0]
    return z3.Or(*out)


def Not(x):
    if x is True:
        return False
    if x is False:
        return True
    if z3.is_true(x):
        return False
    if z3.is_false(x):
        return True
    return z3.Not(x)


def Implies(a, b):
    return Or(Not(a), b)


def Ite(c, a, b):
    """if-then-else over python constants / z3 terms with folding"""
    if c is True or (not isinstance(c, bool) and z3.is_true(c)):
        return a
    if c is False or (not isinstance(c, bool) and z3.is_false(c)):
        return b
    if is_py(a) and is_py(b) and a == b and type(a) == type(b):
        return a
    if (not is_py(a)) and (not is_py(b)) and a.eq(b):
        return a
    a2, b2 = a, b
    if isinstance(a, bool) or isinstance(b, bool):
        a2, b2 = toz(a, "bool"), toz(b, "bool")
        return z3.If(c, a2, b2)
    a2, b2 = coerce_pair(toz(a), toz(b))
    return z3.If(c, a2, b2)


def toz(x, sort=None):
    if isinstance(x, bool):
        if sort in (None, "bool"):
            return z3.BoolVal(x)
        x = int(x)
    if isinstance(x, int):
        return z3.IntVal(x) if sort in (None, "int") else z3.RealVal(x)
    if isinstance(x, float):
        return z3.RealVal(repr(float(x))) if x == x and abs(x) != float("inf") else None
    if sort == "real" and z3.is_int(x):
        return z3.ToReal(x)
    return x


def coerce_pair(a, b):
    if z3.is_int(a) and z3.is_real(b):
        a = z3.ToReal(a)
    elif z3.is_real(a) and z3.is_int(b):
        b = z3.ToReal(b)
    return a, b


def zeq(a, b):
    if is_py(a) and is_py(b):
        return a == b
    a, b = coerce_pair(toz(a), toz(b))
    return a == b


def bz(x):
    """python bool or z3 Bool -> z3 Bool"""
    if isinstance(x, bool):
        return z3.BoolVal(x)
    return x


# ----------------------------------------------------------------------------------------------
# SBool
# ----------------------------------------------------------------------------------------------
class SBool(object):
    __array_ufunc__ = None
    __slots__ = ("z", "masked")

    def __init__(self, z, masked=False):
        if isinstance(z, SBool):
            z, masked = z.z, z.masked
        self.z = bz(z)
        self.masked = masked    # a comparison that involved numpy.ma.masked: falsy, stays masked

    def __bool__(self):
        return CTX.engine.decide(self.z)

    def _lift(self, o):
        if isinstance(o, SBool):
            return o.z
        if isinstance(o, bool):
            return z3.BoolVal(o)
        if isinstance(o, (int, float)) and o in (0, 1):
            return z3.BoolVal(bool(o))
        if hasattr(o, "dtype") and not isinstance(o, SArr) and getattr(o, "shape", None) == ():
            return z3.BoolVal(bool(o))
        return None

    def __and__(self, o):
        if isinstance(o, SArr):
            return o.__rand__(self)
        z = self._lift(o)
        if z is None:
            return NotImplemented
        return SBool(And(self.z, z))
    __rand__ = __and__

    def __or__(self, o):
        if isinstance(o, SArr):
            return o.__ror__(self)
        z = self._lift(o)
        if z is None:
            return NotImplemented
        return SBool(Or(self.z, z))
    __ror__ = __or__

    def __invert__(self):
        return SBool(Not(self.z))

    def __eq__(self, o):
        if isinstance(o, SNum):
            return self.num() == o
        z = self._lift(o)
        if z is None:
            return NotImplemented
        return SBool(self.z == z)

    def __ne__(self, o):
        r = self.__eq__(o)
        if r is NotImplemented:
            return r
        return SBool(Not(r.z))

    __hash__ = None

    def num(self):
        return SNum(FIN, Ite(self.z, 1, 0), is_int=True)

    # arithmetic on booleans goes through numbers (numpy semantics: True == 1)
    def __add__(self, o): return self.num() + o
    def __radd__(self, o): return o + self.num()
    def __sub__(self, o): return self.num() - o
    def __rsub__(self, o): return o - self.num()
    def __mul__(self, o): return self.num() * o
    def __rmul__(self, o): return o * self.num()
    def __truediv__(self, o): return self.num() / o
    def __rtruediv__(self, o): return o / self.num()

    def __repr__(self):
        return "SBool(%s)" % (self.z,)


# ----------------------------------------------------------------------------------------------
# SNum
# ----------------------------------------------------------------------------------------------
def _kind_is(k, which):
    if isinstance(k, int):
        return k == which
    return k == which


def knan(k):      # NaN-like for propagation (NAN or MASKED handled separately)
    return _kind_is(k, NAN)


class SNum(object):
    """Extended real.  k: python int or z3 Int term; v: z3 arith term (meaningful when k == FIN)."""
    __array_ufunc__ = None
    __slots__ = ("k", "v", "is_int", "is_numpy", "src")

    def __init__(self, k, v=None, is_int=False, is_numpy=True):
        self.src = None         # for sizes: the array whose length this is
        self.k = k
        if v is None:
            v = z3.RealVal(0)
        elif is_py(v):
            v = toz(v, "int" if (is_int and not isinstance(v, float)) else "real")
        self.v = v
        self.is_int = is_int
        self.is_numpy = is_numpy

    # ---- constructors
    @staticmethod
    def lift(x):
        if isinstance(x, SNum):
            return x
        if isinstance(x, SBool):
            return x.num()
        if isinstance(x, bool):
            return SNum(FIN, int(x), is_int=True, is_numpy=False)
        if isinstance(x, int):
            return SNum(FIN, x, is_int=True, is_numpy=False)
        if isinstance(x, float):
            return SNum.from_float(x, is_numpy=False)
        # numpy scalars / masked constant
        try:
            import numpy as _np
            if x is _np.ma.masked:
                return SNum(MASKED)
            if isinstance(x, _np.generic) or (isinstance(x, _np.ndarray) and x.shape == ()):
                if isinstance(x, (_np.bool_,)):
                    return SNum(FIN, int(x), is_int=True)
                if isinstance(x, _np.integer):
                    return SNum(FIN, int(x), is_int=True)
                return SNum.from_float(float(x), is_numpy=True)
        except ImportError:
            pass
        return None

    @staticmethod
    def from_float(x, is_numpy=True):
        if x != x:
            return SNum(NAN, is_numpy=is_numpy)
        if x == float("inf"):
            return SNum(PINF, is_numpy=is_numpy)
        if x == float("-inf"):
            return SNum(NINF, is_numpy=is_numpy)
        return SNum(FIN, z3.RealVal(repr(float(x))), is_numpy=is_numpy)

    # ---- kind predicates (z3 Bool or python bool)
    def kis(self, which):
        if isinstance(self.k, int):
            return self.k == which
        return self.k == which

    def isfin(self): return self.kis(FIN)
    def isnan_raw(self): return self.kis(NAN)
    def ismasked(self): return self.kis(MASKED)
    def ispinf(self): return self.kis(PINF)
    def isninf(self): return self.kis(NINF)
    def isinf(self): return Or(self.kis(PINF), self.kis(NINF))

    def rv(self):
        """value as a z3 Real"""
        v = self.v
        if z3.is_int(v):
            return z3.ToReal(v)
        return v

    # ---- arithmetic
    def _bin(self, o, op):
        import numpy as _np
        if isinstance(o, _np.ndarray) and o.dtype == object:
            # a NumPy object array of proxies (e.g. the bin counts of np.histogram): element-wise, as NumPy would do
            out = _np.empty(o.shape, dtype=object)
            for i in _np.ndindex(*o.shape):
                out[i] = self._bin(o[i], op)
            return out
        o2 = SNum.lift(o)
        if o2 is None:
            return NotImplemented
        return op(self, o2)

    def __add__(self, o):
        if isinstance(o, SArr):
            return o.__radd__(self)
        return self._bin(o, num_add)
    def __radd__(self, o): return self._bin(o, lambda a, b: num_add(b, a))
    def __sub__(self, o):
        if isinstance(o, SArr):
            return o.__rsub__(self)
        return self._bin(o, num_sub)
    def __rsub__(self, o): return self._bin(o, lambda a, b: num_sub(b, a))
    def __mul__(self, o):
        if isinstance(o, SArr):
            return o.__rmul__(self)
        return self._bin(o, num_mul)
    def __rmul__(self, o): return self._bin(o, lambda a, b: num_mul(b, a))
    def __truediv__(self, o):
        if isinstance(o, SArr):
            return o.__rtruediv__(self)
        return self._bin(o, num_div)
    def __rtruediv__(self, o): return self._bin(o, lambda a, b: num_div(b, a))
    def __neg__(self): return num_neg(self)
    def __pos__(self): return self
    def __abs__(self): return num_abs(self)
    def __pow__(self, o): return num_pow(self, o)
    def __mod__(self, o): return self._bin(o, num_mod)
    def __rmod__(self, o): return self._bin(o, lambda a, b: num_mod(b, a))
    def __floordiv__(self, o): return self._bin(o, num_floordiv)
    def __rfloordiv__(self, o): return self._bin(o, lambda a, b: num_floordiv(b, a))

    # ---- comparisons
    def __lt__(self, o):
        if isinstance(o, SArr):
            return o.__gt__(self)
        return self._bin(o, lambda a, b: num_cmp(a, b, "<"))
    def __le__(self, o):
        if isinstance(o, SArr):
            return o.__ge__(self)
        return self._bin(o, lambda a, b: num_cmp(a, b, "<="))
    def __gt__(self, o):
        if isinstance(o, SArr):
            return o.__lt__(self)
        return self._bin(o, lambda a, b: num_cmp(a, b, ">"))
    def __ge__(self, o):
        if isinstance(o, SArr):
            return o.__le__(self)
        return self._bin(o, lambda a, b: num_cmp(a, b, ">="))
    def __eq__(self, o):
        if isinstance(o, SArr):
            return o.__eq__(self)
        if o is None:
            return False
        return self._bin(o, lambda a, b: num_cmp(a, b, "=="))
    def __ne__(self, o):
        if isinstance(o, SArr):
            return o.__ne__(self)
        if o is None:
            return True
        return self._bin(o, lambda a, b: num_cmp(a, b, "!="))

    def __hash__(self):
        return id(self)

    def __bool__(self):
        # truth value of a number: nonzero (NaN is truthy, masked is falsy)
        b = Or(And(self.isfin(), Not(zeq(self.v, 0))), self.isnan_raw(), self.isinf())
        return CTX.engine.decide(bz(b))

    def __index__(self):
        raise Unsupported("symbolic number used as a concrete index")

    def __float__(self):
        raise Unsupported("float() of a symbolic number without the builtin shim")

    def __int__(self):
        raise Unsupported("int() of a symbolic number without the builtin shim")

    def __repr__(self):
        k = KNAMES.get(self.k, self.k) if isinstance(self.k, int) else self.k
        return "SNum(%s, %s)" % (k, self.v)

    # numpy scalar API used by the code
    @property
    def shape(self):
        return ()

    def astype(self, t):
        return self

    def item(self):
        return self


def _fin(v, a, b):
    return SNum(FIN, v, is_int=False, is_numpy=a.is_numpy or b.is_numpy)


def kite(cases, default):
    """cases: list of (cond, kind) evaluated in order -> kind term (python int if decidable)"""
    out = default
    for cond, kind in reversed(cases):
        out = Ite(cond, kind, out)
    return out


def vite(cases, default):
    out = default
    for cond, val in reversed(cases):
        out = Ite(cond, val, out)
    return out


def sgn_pos(x):
    """z3 Bool: x is 'positive' as an extended real (FIN>0 or +inf)"""
    return Or(And(x.isfin(), bz(x.rv() > 0)), x.ispinf())


def sgn_neg(x):
    return Or(And(x.isfin(), bz(x.rv() < 0)), x.isninf())


def num_add(a, b):
    is_int = a.is_int and b.is_int
    anynan = Or(a.isnan_raw(), b.isnan_raw())
    anymask = Or(a.ismasked(), b.ismasked())
    k = kite([(anymask, MASKED),
              (anynan, NAN),
              (And(a.ispinf(), b.isninf()), NAN),
              (And(a.isninf(), b.ispinf()), NAN),
              (Or(a.ispinf(), b.ispinf()), PINF),
              (Or(a.isninf(), b.isninf()), NINF)], FIN)
    av, bv = coerce_pair(a.v, b.v)
    return SNum(k, av + bv, is_int=is_int, is_numpy=a.is_numpy or b.is_numpy)


def num_neg(a):
    k = kite([(a.ispinf(), NINF), (a.isninf(), PINF)], a.k)
    return SNum(k, -a.v, is_int=a.is_int, is_numpy=a.is_numpy)


def norm_kind(x):
    """replace a symbolic kind term by a constant when the path condition and facts decide it (keeps terms small)"""
    if isinstance(x.k, int):
        return x
    k = z3.simplify(x.k)
    if z3.is_int_value(k):
        return SNum(k.as_long(), x.v, is_int=x.is_int, is_numpy=x.is_numpy)
    eng = CTX.engine
    if eng is not None and eng.entails(k == FIN, timeout_ms=KIND_TIMEOUT_MS):
        return SNum(FIN, x.v, is_int=x.is_int, is_numpy=x.is_numpy)
    return SNum(k, x.v, is_int=x.is_int, is_numpy=x.is_numpy)


def num_sub(a, b):
    return num_add(a, num_neg(b))


def num_abs(a):
    k = kite([(a.isninf(), PINF)], a.k)
    v = Ite(bz(a.v >= 0), a.v, -a.v)
    return SNum(k, v, is_int=a.is_int, is_numpy=a.is_numpy)


def num_mul(a, b):
    is_int = a.is_int and b.is_int
    anynan = Or(a.isnan_raw(), b.isnan_raw())
    anymask = Or(a.ismasked(), b.ismasked())
    azero = And(a.isfin(), bz(zeq(a.v, 0)))
    bzero = And(b.isfin(), bz(zeq(b.v, 0)))
    anyinf = Or(a.isinf(), b.isinf())
    pos = Or(And(sgn_pos(a), sgn_pos(b)), And(sgn_neg(a), sgn_neg(b)))
    k = kite([(anymask, MASKED),
              (anynan, NAN),
              (And(anyinf, Or(azero, bzero)), NAN),
              (And(anyinf, pos), PINF),
              (anyinf, NINF)], FIN)
    av, bv = coerce_pair(a.v, b.v)
    return SNum(k, av * bv, is_int=is_int, is_numpy=a.is_numpy or b.is_numpy)


def num_div(a, b):
    if not (a.is_numpy or b.is_numpy):
        # pure Python numbers: ZeroDivisionError
        z = And(b.isfin(), bz(zeq(b.v, 0)))
        if z is not False:
            if CTX.engine.decide(bz(z)):
                raise ZeroDivisionError("division by zero")
    anynan = Or(a.isnan_raw(), b.isnan_raw())
    anymask = Or(a.ismasked(), b.ismasked())
    bzero = And(b.isfin(), bz(zeq(b.v, 0)))
    azero = And(a.isfin(), bz(zeq(a.v, 0)))
    k = kite([(anymask, MASKED),
              (anynan, NAN),
              (And(a.isinf(), b.isinf()), NAN),
              (And(bzero, azero), NAN),
              (And(bzero, sgn_pos(a)), PINF),      # x/0 with +0 (signed zeros not modelled)
              (And(bzero, sgn_neg(a)), NINF),
              (And(a.isinf(), Or(And(sgn_pos(a), Not(sgn_neg(b))), And(sgn_neg(a), sgn_neg(b)))), PINF),
              (a.isinf(), NINF),
              (b.isinf(), FIN)], FIN)
    bv = b.rv()
    if not isinstance(k, int):
        k = z3.simplify(k)
        if z3.is_int_value(k):
            k = k.as_long()
        elif CTX.engine is not None and CTX.engine.entails(k == FIN, timeout_ms=KIND_TIMEOUT_MS):
            k = FIN
    if isinstance(k, int) and k == FIN and (CTX.engine is not None and CTX.engine.entails(z3.Not(bz(bzero)), timeout_ms=KIND_TIMEOUT_MS)):
        return SNum(FIN, a.rv() / bv, is_int=False, is_numpy=a.is_numpy or b.is_numpy)
    safe = Ite(bzero, z3.RealVal(1), bv)
    v = Ite(b.isinf(), z3.RealVal(0), a.rv() / safe)
    return SNum(k, v, is_int=False, is_numpy=a.is_numpy or b.is_numpy)


def _toint(x):
    return x if z3.is_int(x) else z3.ToInt(x)


def num_mod(a, b):
    # only finite operands are supported (times, lead times)
    if not (a.isfin() is True and b.isfin() is True):
        _require_fin(a, "mod"); _require_fin(b, "mod")
    if a.is_int and b.is_int:
        return SNum(FIN, _toint(a.v) % _toint(b.v), is_int=True, is_numpy=a.is_numpy or b.is_numpy)
    # real modulo with positive divisor: a - b*floor(a/b)
    q = z3.ToInt(a.rv() / b.rv())
    return SNum(FIN, a.rv() - b.rv() * z3.ToReal(q), is_numpy=a.is_numpy or b.is_numpy)


def num_floordiv(a, b):
    _require_fin(a, "floordiv"); _require_fin(b, "floordiv")
    if a.is_int and b.is_int:
        # python floor division; z3 div is floor for positive divisor
        return SNum(FIN, _toint(a.v) / _toint(b.v), is_int=True, is_numpy=a.is_numpy or b.is_numpy)
    q = z3.ToInt(a.rv() / b.rv())
    return SNum(FIN, z3.ToReal(q), is_numpy=a.is_numpy or b.is_numpy)


def _require_fin(a, what):
    f = a.isfin()
    if f is True:
        return
    if f is False or not CTX.engine.entails(bz(f)):
        raise Unsupported("%s on a possibly non-finite number" % what)


def num_cmp(a, b, op):
    av, bv = coerce_pair(a.v, b.v)
    anymask = Or(a.ismasked(), b.ismasked())
    anynan = Or(a.isnan_raw(), b.isnan_raw(), anymask)
    bothfin = And(a.isfin(), b.isfin())
    if op == "==":
        r = And(Not(anynan), Or(And(bothfin, bz(av == bv)), And(a.ispinf(), b.ispinf()), And(a.isninf(), b.isninf())))
    elif op == "!=":
        eq = And(Not(anynan), Or(And(bothfin, bz(av == bv)), And(a.ispinf(), b.ispinf()), And(a.isninf(), b.isninf())))
        r = And(Not(anymask), Not(eq))
    elif op == "<":
        r = And(Not(anynan), Or(And(bothfin, bz(av < bv)), And(a.isninf(), Not(b.isninf())), And(b.ispinf(), Not(a.ispinf()))))
    elif op == "<=":
        r = And(Not(anynan), Or(And(bothfin, bz(av <= bv)), a.isninf(), b.ispinf()))
    elif op == ">":
        return num_cmp(b, a, "<")
    elif op == ">=":
        return num_cmp(b, a, "<=")
    else:
        raise ValueError(op)
    return SBool(bz(r))


# ---- uninterpreted real functions with instantiated axioms
_UF = {}


def uf(name, arity=1):
    if name not in _UF:
        _UF[name] = z3.Function("uf_" + name, *([z3.RealSort()] * (arity + 1)))
    return _UF[name]


def _app(name, *args):
    """apply an uninterpreted function and register the application for axiom instantiation"""
    use("uninterpreted:" + name)
    f = uf(name, len(args))
    t = f(*args)
    key = (name, t.get_id())
    if key not in CTX.fn_apps:
        CTX.fn_apps[key] = (name, args, t)
        for ax in _axioms(name, args, t):
            CTX.facts.append(ax)
        # pairwise monotonicity / injectivity instances against earlier applications
        for (n2, a2, t2) in list(CTX.fn_apps.values()):
            if n2 == name and t2.get_id() != t.get_id() and len(a2) == 1 and name in ("sqrt", "ln", "log2", "exp", "cbrt", "ppf"):
                x, y = args[0], a2[0]
                CTX.facts.append(z3.Implies(x < y, t < t2))
                CTX.facts.append(z3.Implies(y < x, t2 < t))
    return t


def _axioms(name, args, t):
    if name == "sqrt":
        x = args[0]
        return [z3.Implies(x >= 0, z3.And(t >= 0, t * t == x)), z3.Implies(x == 0, t == 0), z3.Implies(x == 1, t == 1)]
    if name == "cbrt":
        x = args[0]
        return [z3.Implies(x >= 0, z3.And(t >= 0, t * t * t == x)), z3.Implies(x == 0, t == 0)]
    if name in ("ln", "log2"):
        x = args[0]
        return [z3.Implies(x == 1, t == 0), z3.Implies(z3.And(x > 0, x < 1), t < 0), z3.Implies(x > 1, t > 0)]
    if name == "exp":
        x = args[0]
        return [t > 0, z3.Implies(x == 0, t == 1), z3.Implies(x > 0, t > 1), z3.Implies(x < 0, t < 1)]
    return []


def num_sqrt(a):
    a = SNum.lift(a)
    neg = And(a.isfin(), bz(a.rv() < 0))
    k = kite([(a.ismasked(), MASKED), (a.isnan_raw(), NAN), (a.isninf(), NAN), (neg, NAN), (a.ispinf(), PINF)], FIN)
    return SNum(k, _app("sqrt", a.rv()), is_numpy=True)


def num_cbrt_pow(a):
    """x ** (1.0/3) for numpy floats: NaN for negative base"""
    neg = And(a.isfin(), bz(a.rv() < 0))
    k = kite([(a.ismasked(), MASKED), (a.isnan_raw(), NAN), (a.isninf(), NAN), (neg, NAN), (a.ispinf(), PINF)], FIN)
    return SNum(k, _app("cbrt", a.rv()), is_numpy=True)


def num_log(a, name="ln"):
    a = SNum.lift(a)
    neg = And(a.isfin(), bz(a.rv() < 0))
    zero = And(a.isfin(), bz(zeq(a.rv(), 0)))
    k = kite([(a.ismasked(), MASKED), (a.isnan_raw(), NAN), (a.isninf(), NAN), (neg, NAN), (zero, NINF), (a.ispinf(), PINF)], FIN)
    return SNum(k, _app(name, a.rv()), is_numpy=True)


def num_exp(a):
    a = SNum.lift(a)
    k = kite([(a.ismasked(), MASKED), (a.isnan_raw(), NAN), (a.ispinf(), PINF), (a.isninf(), FIN)], FIN)
    v = Ite(a.isninf(), z3.RealVal(0), _app("exp", a.rv()))
    return SNum(k, v, is_numpy=True)


def num_pow(a, e):
    if isinstance(e, SNum):
        raise Unsupported("symbolic exponent")
    if isinstance(e, bool):
        e = int(e)
    if e == 2:
        r = num_mul(a, a)
        # (inf)**2 = +inf, nan stays nan: num_mul already does this
        return r
    if e == 3:
        return num_mul(num_mul(a, a), a)
    if e == 1:
        return a
    if e == 0.5:
        return num_sqrt(a)
    if isinstance(e, float) and abs(e - 1.0 / 3) < 1e-15:
        return num_cbrt_pow(a)
    raise Unsupported("power with exponent %r" % (e,))


def num_floor_to_int(a, trunc=True):
    """int(x) for a finite real: truncation toward zero"""
    _require_fin(a, "int()")
    if a.is_int or z3.is_int(a.v):
        return SNum(FIN, a.v, is_int=True, is_numpy=False)
    fl = z3.ToInt(a.v)
    v = z3.If(a.v >= 0, fl, -z3.ToInt(-a.v))
    return SNum(FIN, v, is_int=True, is_numpy=False)


def num_eq_term(a, b):
    """z3 Bool: a and b denote the same extended real (NaN == NaN, masked == masked here)"""
    a, b = SNum.lift(a), SNum.lift(b)
    av, bv = coerce_pair(a.v, b.v)
    ka, kb = a.k, b.k
    same_kind = bz(zeq(ka, kb))
    return And(same_kind, Implies(a.isfin(), bz(av == bv)))


# ----------------------------------------------------------------------------------------------
# Axes, stores, arrays
# ----------------------------------------------------------------------------------------------
class Axis(object):
    """One generic index domain 0 <= i < size"""
    def __init__(self, name, size=None):
        self.name = name
        if size is None:
            size = SNum(FIN, z3.Int("n_" + name), is_int=True)
            CTX.facts.append(size.v >= 0)
        elif isinstance(size, int):
            size = SNum(FIN, size, is_int=True)
        self.size = size
        CTX.all_axes.append(self)

    def fresh_index(self, tag="i"):
        """a generic index of this axis.  Its range 0 <= i < size is NOT asserted globally (the axis may be
        empty on this path); users put rng(idx) in front of what they prove or assume."""
        i = CTX.fresh("%s_%s" % (tag, self.name), "int")
        CTX.ranges[i.get_id()] = z3.And(i >= 0, i < self.size.v)
        self.note_index(i)
        return i

    def note_index(self, i):
        """i is an index term of this axis: instantiate the axis' quantified facts (sortedness, minimality) at it"""
        terms = CTX.axis_terms.setdefault(id(self), [])
        if any(t.get_id() == i.get_id() for t in terms):
            return
        terms.append(i)
        for h in CTX.axis_hooks.get(id(self), []):
            h(i)

    def add_hook(self, h):
        CTX.axis_hooks.setdefault(id(self), []).append(h)
        for t in list(CTX.axis_terms.get(id(self), [])):
            h(t)

    def __repr__(self):
        return "Axis(%s)" % self.name


class Store(object):
    """mutable cell holding the element function idx-tuple -> SNum | SBool"""
    def __init__(self, get):
        self.get = get


class WhereResult(tuple):
    """tuple returned by np.where(cond): remembers the boolean array it came from"""
    def __new__(cls, cond):
        comps = tuple(WhereComp(cond, d) for d in range(max(1, cond.ndim)))
        t = tuple.__new__(cls, comps)
        t.cond = cond
        return t


class WhereComp(object):
    """one member of a WhereResult (an index array along dimension d)"""
    __array_ufunc__ = None

    def __init__(self, cond, d):
        self.cond = cond
        self.d = d

    def _count(self):
        cond = self.cond
        n = cond.count_true()
        if len(cond.axes) == 1 and cond.sel is None:
            # the count dominates the indicator at every index term already known for this axis (R3_term)
            ax, g = cond.axes[0], cond._snapshot()
            for t in list(CTX.axis_terms.get(id(ax), [])):
                CTX.facts.append(z3.Implies(z3.And(t >= 0, t < ax.size.v), n.v >= Ite(bz(g((t,)).z), 1, 0)))
        return n

    @property
    def shape(self):
        return (self._count(),)

    def __gt__(self, o):
        # "len(I > 0)" in LEPS: an array of the same length
        return self
    __ge__ = __lt__ = __le__ = __gt__

    def __getitem__(self, k):
        if isinstance(k, int) and k == 0 and self.cond.ndim == 1:
            return first_true_index(self.cond)
        raise Unsupported("indexing a where() result with %r" % (k,))


def elem_ite(c, a, b):
    """if-then-else on elements (SNum or SBool)"""
    if isinstance(a, SBool) and isinstance(b, SBool):
        return SBool(Ite(c, a.z, b.z))
    a, b = SNum.lift(a), SNum.lift(b)
    k = Ite(c, a.k, b.k)
    av, bv = coerce_pair(a.v, b.v)
    return SNum(k, Ite(c, av, bv), is_int=a.is_int and b.is_int)


class Shape(tuple):
    """shape tuple that remembers its array, so np.zeros(x.shape) lands on x's index domain"""
    def __new__(cls, items, src):
        t = tuple.__new__(cls, items)
        t.src = src
        return t


class SArr(object):
    __array_ufunc__ = None

    def __init__(self, axes, get, dtype="float", sel=None, mask=None, store=None, flat=False, tmap=None):
        self.axes = tuple(axes)
        self.store = store if store is not None else Store(get)
        self.dtype = dtype          # 'float' | 'bool' | 'int'
        self.sel = sel              # None or f(idx)->z3 Bool : which points of the domain are present
        self.mask = mask            # None or f(idx)->z3 Bool : numpy.ma mask
        self.flat = flat or len(self.axes) <= 1
        self.tmap = tmap            # view: maps own idx -> store idx (late bound reads / writes)

    # ---- element access at index terms (tuple of z3 Int terms, one per axis)
    def at(self, idx):
        idx = tuple(idx)
        if self.tmap is not None:
            return self.store.get(self.tmap(idx))
        return self.store.get(idx)

    def sel_at(self, idx):
        return True if self.sel is None else self.sel(tuple(idx))

    def mask_at(self, idx):
        return False if self.mask is None else self.mask(tuple(idx))

    def generic(self, tag="i"):
        return tuple(ax.fresh_index(tag) for ax in self.axes)

    # ---- structure
    @property
    def ndim(self):
        return 1 if self.flat else len(self.axes)

    @property
    def shape(self):
        if self.flat or len(self.axes) == 1:
            n = self.size_term()
            n = SNum(n.k, n.v, is_int=True, is_numpy=False)
            n.src = self
            return Shape((n,), self)
        if self.sel is not None:
            raise Unsupported("shape of a filtered multi-dimensional array")
        return Shape(tuple(ax.size for ax in self.axes), self)

    def size_term(self):
        if self.sel is None:
            n = None
            for ax in self.axes:
                n = ax.size if n is None else n * ax.size
            if n is None:
                n = SNum(FIN, 1, is_int=True)
            return n
        return count_atom(self.axes, lambda idx: self.sel(idx))

    def copy(self):
        g = self._snapshot()
        c = SArr(self.axes, g, self.dtype, self.sel, self.mask, flat=self.flat)
        if self.mask is not None and hasattr(self, "fill_value"):
            c.fill_value = self.fill_value          # numpy.ma keeps the fill value across copy()/astype()
        return c

    def _snapshot(self):
        get = self.store.get
        if self.tmap is not None:
            tm = self.tmap
            return lambda idx: get(tm(idx))
        return get

    def __deepcopy__(self, memo):
        return self.copy()

    def __copy__(self):
        return self.copy()

    def flatten(self):
        c = self.copy()
        c.flat = True
        return c

    def astype(self, t):
        import numpy as _np
        from . import shim_np
        t = shim_np._dt(t)
        c = self.copy()
        if t in (float, _np.float32, _np.float64, "float"):
            if self.dtype == "bool":
                g = c.store.get
                c.store = Store(lambda idx: g(idx).num())
            c.dtype = "float"
        elif t in (bool, "bool"):
            raise Unsupported("astype(bool)")
        elif t in (int, "int"):
            raise Unsupported("astype(int)")
        return c

    def _like(self, get, dtype=None, mask="same"):
        return SArr(self.axes, get, dtype or self.dtype, self.sel, self.mask if mask == "same" else mask, flat=self.flat)

    # ---- alignment of two arrays for elementwise operations
    def _aligned(self, o):
        if len(self.axes) != len(o.axes) or any(a is not b for a, b in zip(self.axes, o.axes)):
            raise Unsupported("elementwise operation on arrays over different index domains %r vs %r" % (self.axes, o.axes))
        if self.sel is o.sel:
            return
        if self.sel is None or o.sel is None:
            a = self.sel or o.sel
            idx = self.generic("al")
            if not CTX.engine.entails(z3.Implies(rng(idx), bz(a(idx)))):
                raise Unsupported("elementwise operation on differently filtered arrays")
            return
        idx = self.generic("al")
        if not CTX.engine.entails(z3.Implies(rng(idx), bz(bz(self.sel(idx)) == bz(o.sel(idx))))):
            raise Unsupported("elementwise operation on differently filtered arrays")

    def _elementwise(self, o, fn, dtype):
        if isinstance(o, SArr):
            self._aligned(o)
            ga, gb = self._snapshot(), o._snapshot()
            get = lambda idx: fn(ga(idx), gb(idx))
            mask = None
            if self.mask is not None or o.mask is not None:
                ma, mb = self.mask, o.mask
                mask = lambda idx: Or(ma(idx) if ma else False, mb(idx) if mb else False)
            sel = self.sel if self.sel is not None else o.sel
            return SArr(self.axes, get, dtype, sel, mask, flat=self.flat and o.flat)
        if isinstance(o, (SBool,)):
            s = o
        else:
            s = SNum.lift(o)
            if s is None:
                conc = _concrete_to_sarr(o, self)
                if conc is None:
                    return NotImplemented
                return self._elementwise(conc, fn, dtype)
        ga = self._snapshot()
        return self._like(lambda idx: fn(ga(idx), s), dtype)

    def _num(self, x):
        return x.num() if isinstance(x, SBool) else x

    def _arith(self, o, f, rev=False):
        n = self._num
        if rev:
            return self._elementwise(o, lambda a, b: f(SNum.lift(n(b)), SNum.lift(n(a))), "float")
        return self._elementwise(o, lambda a, b: f(SNum.lift(n(a)), SNum.lift(n(b))), "float")

    def __add__(self, o): return self._arith(o, num_add)
    def __radd__(self, o): return self._arith(o, num_add, True)
    def __sub__(self, o): return self._arith(o, num_sub)
    def __rsub__(self, o): return self._arith(o, num_sub, True)
    def __mul__(self, o): return self._arith(o, num_mul)
    def __rmul__(self, o): return self._arith(o, num_mul, True)
    def __truediv__(self, o): return self._arith(o, num_div)
    def __rtruediv__(self, o): return self._arith(o, num_div, True)
    def __mod__(self, o): return self._arith(o, num_mod)
    def _inplace(self, new):
        """x op= y: numpy writes the result into x's own storage (visible through every alias of x)"""
        if self.tmap is not None or self.sel is not None:
            raise Unsupported("in-place arithmetic through a view or on a filtered array")
        if new is NotImplemented:
            return new
        g = new._snapshot()
        dtype = self.dtype
        self.store.get = lambda idx: _conv(dtype, g(idx))
        return self

    def __iadd__(self, o): return self._inplace(self + o)
    def __isub__(self, o): return self._inplace(self - o)
    def __imul__(self, o): return self._inplace(self * o)
    def __itruediv__(self, o): return self._inplace(self / o)

    def __neg__(self):
        g = self._snapshot()
        return self._like(lambda idx: num_neg(SNum.lift(self._num(g(idx)))), "float")
    def __abs__(self):
        g = self._snapshot()
        return self._like(lambda idx: num_abs(SNum.lift(self._num(g(idx)))), "float")
    def __pow__(self, e):
        g = self._snapshot()
        return self._like(lambda idx: num_pow(SNum.lift(self._num(g(idx))), e), "float")

    def _cmp(self, o, op):
        n = self._num
        return self._elementwise(o, lambda a, b: num_cmp(SNum.lift(n(a)), SNum.lift(n(b)), op), "bool")
    def __lt__(self, o): return self._cmp(o, "<")
    def __le__(self, o): return self._cmp(o, "<=")
    def __gt__(self, o): return self._cmp(o, ">")
    def __ge__(self, o): return self._cmp(o, ">=")
    def __eq__(self, o):
        if o is None:
            return False
        return self._cmp(o, "==")
    def __ne__(self, o):
        if o is None:
            return True
        return self._cmp(o, "!=")
    __hash__ = None

    def _logic(self, o, f):
        def fn(a, b):
            az = a.z if isinstance(a, SBool) else _truthy(a)
            b_ = b.z if isinstance(b, SBool) else _truthy(b)
            return SBool(f(az, b_))
        if isinstance(o, bool):
            o = SBool(o)
        if hasattr(o, "dtype") and not isinstance(o, SArr) and getattr(o, "shape", None) == ():
            o = SBool(bool(o))
        return self._elementwise(o, fn, "bool")
    def __and__(self, o): return self._logic(o, And)
    def __rand__(self, o): return self._logic(o, And)
    def __or__(self, o): return self._logic(o, Or)
    def __ror__(self, o): return self._logic(o, Or)
    def __invert__(self):
        g = self._snapshot()
        return self._like(lambda idx: SBool(Not(g(idx).z)), "bool")

    def __bool__(self):
        raise Unsupported("truth value of a symbolic array")

    def __len__(self):
        raise Unsupported("len() of a symbolic array without the builtin shim")

    def __iter__(self):
        """`for v in arr` over a one-dimensional array: the body runs once, at a generic position (a map loop, like range())"""
        if len(self.axes) != 1 or self.sel is not None or self.mask is not None:
            raise Unsupported("iteration over a filtered / masked / multi-dimensional symbolic array")
        from . import shim_np
        for k in shim_np.GenericRange(0, self.axes[0].size):
            yield self[k]

    # ---- indexing
    def __getitem__(self, key):
        return sarr_getitem(self, key)

    def __setitem__(self, key, value):
        return sarr_setitem(self, key, value)

    # ---- reductions used through methods
    def count_true(self):
        """number of selected, true (data) elements: what len(np.where(self)[0]) is"""
        g = self._snapshot()
        sel = self.sel
        return count_atom(self.axes, lambda idx: And(sel(idx) if sel else True, g(idx).z))

    def mean(self, axis=None, **kw):
        return arr_mean(self, axis)

    def sum(self, axis=None, **kw):
        return arr_sum(self, axis)

    def __array_function__(self, func, types, args, kwargs):
        """NumPy functions reached through a reference bound before the shim was installed (default arguments
        such as func=np.mean) are routed to the shim"""
        from . import shim_np
        f = getattr(shim_np.np_shim, func.__name__, None)
        if f is None:
            raise Unsupported("np.%s has no symbolic model" % func.__name__)
        return f(*args, **kwargs)

    def __repr__(self):
        return "SArr(%s, axes=%s%s%s)" % (self.dtype, [a.name for a in self.axes], ", filtered" if self.sel else "", ", masked" if self.mask else "")


def _truthy(x):
    x = SNum.lift(x)
    return bz(Or(And(x.isfin(), Not(bz(zeq(x.v, 0)))), x.isnan_raw(), x.isinf()))


def _concrete_to_sarr(o, like):
    """a real ndarray meeting a symbolic array: only scalars / 0-d supported"""
    return None


# ---- array factories
def raw_array(name, axes, dtype="float", nan_free=False, finite=True, kinds=None):
    """fresh symbolic input array; elements are uninterpreted functions of the index.
    kinds: which kinds elements may take (default: FIN, NAN, PINF, NINF unless nan_free/finite)"""
    sorts = [z3.IntSort()] * len(axes)
    if dtype == "bool":
        fb = z3.Function("arr_%s_b" % name, *(sorts + [z3.BoolSort()]))
        return SArr(axes, lambda idx: SBool(fb(*idx)), "bool")
    fv = z3.Function("arr_%s_v" % name, *(sorts + [z3.RealSort() if dtype == "float" else z3.IntSort()]))
    if nan_free and finite:
        return SArr(axes, lambda idx: SNum(FIN, fv(*idx), is_int=(dtype == "int")), dtype)
    fk = z3.Function("arr_%s_k" % name, *(sorts + [z3.IntSort()]))
    allowed = kinds if kinds is not None else ([FIN, PINF, NINF] if nan_free else ([FIN, NAN] if finite else [FIN, NAN, PINF, NINF]))

    seen = set()

    def get(idx):
        k = fk(*idx)
        if k.get_id() not in seen:
            seen.add(k.get_id())
            CTX.facts.append(z3.Or(*[k == a for a in allowed]))
        return SNum(k, fv(*idx), is_int=(dtype == "int"))
    return SArr(axes, get, dtype)


def const_array(axes, value, dtype="float"):
    v = SBool(value) if dtype == "bool" else SNum.lift(value)
    return SArr(axes, lambda idx: v, dtype)


# ---- indexing implementation
def _norm_key(a, key):
    if not isinstance(key, tuple) or isinstance(key, WhereResult):
        key = (key,)
    if any(k is Ellipsis for k in key):
        i = [j for j, k in enumerate(key) if k is Ellipsis][0]
        nfill = len(a.axes) - (len(key) - 1)
        key = key[:i] + (slice(None),) * nfill + key[i + 1:]
    return key


def _is_full_slice(k):
    return isinstance(k, slice) and k.start is None and k.stop is None and k.step is None


def _index_scalar(a, k, ax):
    """scalar index term (python int incl. negative, SNum) -> z3 Int"""
    if isinstance(k, int):
        if k < 0:
            return ax.size.v + k
        return z3.IntVal(k)
    k = SNum.lift(k)
    if k is None:
        return None
    return _toint(k.v)


def sarr_getitem(a, key):
    import numpy as _np
    # boolean mask / where-result filtering over the whole domain
    if isinstance(key, WhereResult):
        if len(key) == 1 or all(isinstance(c, WhereComp) for c in key):
            return _filter(a, key.cond)
    if isinstance(key, WhereComp):
        if key.cond.ndim != 1 and not key.cond.flat:
            raise Unsupported("one component of a multi-dimensional where()")
        return _filter(a, key.cond)
    if isinstance(key, SArr) and key.dtype == "bool":
        if getattr(a, "setinfo", None) is not None:
            from . import setarr
            r = setarr.drop_nan(a, key)
            if r is not None:
                return r
        return _filter(a, key)
    if isinstance(key, SArr) and key.dtype == "int":
        if len(a.axes) != 1 and not a.flat:
            key = (key,)
        else:
            return _fancy(a, 0, key)
    key = _norm_key(a, key)
    if a.flat and len(a.axes) > 1:
        raise Unsupported("positional indexing of a flattened multi-axis array")
    if len(key) > len(a.axes):
        raise Unsupported("too many indices")
    key = key + (slice(None),) * (len(a.axes) - len(key))
    out = a
    # process one non-trivial component at a time (the code under study does exactly that)
    nontrivial = [(d, k) for d, k in enumerate(key) if not _is_full_slice(k)]
    if not nontrivial:
        v = SArr(a.axes, None, a.dtype, a.sel, a.mask, store=a.store, flat=a.flat, tmap=a.tmap)
        if a.mask is not None and hasattr(a, "fill_value"):
            v.fill_value = a.fill_value
        return v
    # all-scalar -> element
    if len(nontrivial) == len(a.axes) and all(not isinstance(k, (SArr, slice, WhereResult, WhereComp, RangeSel)) and not hasattr(k, "as_sel")
                                              and _index_scalar(a, k, a.axes[d]) is not None for d, k in nontrivial):
        idx = tuple(_index_scalar(a, k, a.axes[d]) for d, k in nontrivial)
        return a.at(idx)
    dropped = 0
    for d, k in nontrivial:
        d2 = d - dropped
        if isinstance(k, (WhereResult, WhereComp)):
            cond = k.cond
            if len(cond.axes) != 1:
                raise Unsupported("where() of a multi-dimensional array as a single index")
            out = _filter_axis(out, d2, cond)
        elif isinstance(k, RangeSel) or hasattr(k, "as_sel"):
            out = _filter_axis_fn(out, d2, k if isinstance(k, RangeSel) else k.as_sel())
        elif isinstance(k, SArr) and k.dtype == "int":
            out = _fancy(out, d2, k)
        elif isinstance(k, SArr) and k.dtype == "bool":
            out = _filter_axis(out, d2, k)
        elif isinstance(k, slice):
            out = _slice_axis(out, d2, k)
        else:
            s = _index_scalar(out, k, out.axes[d2])
            if s is None:
                raise Unsupported("index %r" % (k,))
            out = _drop_axis(out, d2, s)
            dropped += 1
    return out


def _compose_view(a, axes, to_base, sel=None, mask=None, flat=False):
    """view of a: own idx -> a's idx via to_base; reads/writes go to a's store"""
    tm = a.tmap
    tmap = (lambda idx: tm(to_base(idx))) if tm is not None else to_base
    return SArr(axes, None, a.dtype, sel, mask, store=a.store, flat=flat, tmap=tmap)


def _drop_axis(a, d, s):
    axes = a.axes[:d] + a.axes[d + 1:]
    to_base = lambda idx: tuple(idx[:d]) + (s,) + tuple(idx[d:])
    sel = (lambda idx: a.sel(to_base(idx))) if a.sel is not None else None
    mask = (lambda idx: a.mask(to_base(idx))) if a.mask is not None else None
    return _compose_view(a, axes, to_base, sel, mask)


def _slice_axis(a, d, sl):
    """a[..., lo:hi, ...] with unit step -> new axis of length hi-lo (view)"""
    if sl.step not in (None, 1):
        raise Unsupported("strided slice")
    ax = a.axes[d]
    lo = z3.IntVal(0) if sl.start is None else _index_scalar(a, sl.start, ax)
    hi = ax.size.v if sl.stop is None else _index_scalar(a, sl.stop, ax)
    nax = Axis("%s[%s:%s]" % (ax.name, sl.start, sl.stop), SNum(FIN, z3.simplify(hi - lo), is_int=True))
    axes = a.axes[:d] + (nax,) + a.axes[d + 1:]
    to_base = lambda idx: tuple(idx[:d]) + (idx[d] + lo,) + tuple(idx[d + 1:])
    sel = (lambda idx: a.sel(to_base(idx))) if a.sel is not None else None
    mask = (lambda idx: a.mask(to_base(idx))) if a.mask is not None else None
    return _compose_view(a, axes, to_base, sel, mask)


def _fancy(a, d, index_arr):
    """a[..., I, ...] with an integer index array along dimension d -> copy"""
    if len(index_arr.axes) != 1:
        raise Unsupported("multi-dimensional index array")
    if index_arr.sel is not None:
        raise Unsupported("filtered index array")
    nax = index_arr.axes[0]
    ig = index_arr._snapshot()
    g = a._snapshot()
    axes = a.axes[:d] + (nax,) + a.axes[d + 1:]
    to_base = lambda idx: tuple(idx[:d]) + (_toint(ig((idx[d],)).v),) + tuple(idx[d + 1:])
    sel = (lambda idx: a.sel(to_base(idx))) if a.sel is not None else None
    mask = (lambda idx: a.mask(to_base(idx))) if a.mask is not None else None
    return SArr(axes, lambda idx: g(to_base(idx)), a.dtype, sel, mask)


def _filter(a, cond):
    """a[cond] with cond a boolean array over the same domain -> flat copy with narrowed selection"""
    if len(a.axes) != len(cond.axes) or any(x is not y for x, y in zip(a.axes, cond.axes)):
        raise Unsupported("boolean index over a different domain")
    cg = cond._snapshot()
    csel = cond.sel
    asel = a.sel
    if csel is not None and csel is not asel:
        idx = a.generic("al")
        if not CTX.engine.entails(z3.Implies(rng(idx), bz(bz(asel(idx) if asel else True) == bz(csel(idx))))):
            raise Unsupported("boolean index filtered differently from the array")
    sel = lambda idx: And(asel(idx) if asel else True, cg(idx).z)
    return SArr(a.axes, a._snapshot(), a.dtype, sel, a.mask, flat=True)


def _filter_axis(a, d, cond):
    """a[:, cond1d, :] -> selection along one axis"""
    if cond.axes[0] is not a.axes[d]:
        raise Unsupported("axis filter over a different domain")
    cg = cond._snapshot()
    csel = cond.sel
    asel = a.sel
    sel = lambda idx: And(asel(idx) if asel else True, csel((idx[d],)) if csel else True, cg((idx[d],)).z)
    return SArr(a.axes, a._snapshot(), a.dtype, sel, a.mask, flat=a.flat)


class RangeSel(object):
    """symbolic range(lo, hi) used as an index list along one axis"""
    def __init__(self, lo, hi):
        self.lo, self.hi = lo, hi

    def pred(self, i):
        return z3.And(i >= self.lo, i < self.hi)


def _filter_axis_fn(a, d, rs):
    asel = a.sel
    sel = lambda idx: And(asel(idx) if asel else True, rs.pred(idx[d]))
    return SArr(a.axes, a._snapshot(), a.dtype, sel, a.mask, flat=a.flat)


def sarr_setitem(a, key, value):
    """in-place assignment (writes through views into the shared store)"""
    # boolean-mask / where assignment over the whole domain
    cond = None
    if isinstance(key, WhereResult):
        cond = key.cond
    elif isinstance(key, WhereComp):
        cond = key.cond
    elif isinstance(key, SArr) and key.dtype == "bool":
        cond = key
    elif isinstance(key, tuple) and key and all(isinstance(k, WhereComp) for k in key):
        c0 = key[0].cond
        if all(k.cond is c0 for k in key) and [k.d for k in key] == list(range(len(key))):
            cond = c0
    if cond is not None:
        if len(a.axes) != len(cond.axes) or any(x is not y for x, y in zip(a.axes, cond.axes)):
            raise Unsupported("masked assignment over a different domain")
        cg = cond._snapshot()
        old = a.store.get
        tm = a.tmap
        if tm is not None:
            raise Unsupported("masked assignment through a view")
        if isinstance(value, SArr):
            # value must be aligned with a[cond]
            vg = value._snapshot()
            if any(x is not y for x, y in zip(a.axes, value.axes)):
                raise Unsupported("masked assignment from a different domain")
            vsel = value.sel
            idx = a.generic("al")
            want = And(a.sel_at(idx), cg(idx).z)
            have = vsel(idx) if vsel is not None else True
            if not CTX.engine.entails(z3.Implies(rng(idx), bz(bz(want) == bz(have)))):
                raise Unsupported("masked assignment from a differently filtered array")
            newv = lambda idx: _conv(a.dtype, vg(idx))
        else:
            sv = value if isinstance(value, SBool) else SNum.lift(value)
            if sv is None:
                raise Unsupported("masked assignment of %r" % (value,))
            sv = _conv(a.dtype, sv)
            newv = lambda idx: sv
        a.store.get = lambda idx: elem_ite(cg(idx).z, newv(idx), old(idx))
        return
    key = _norm_key(a, key)
    key = key + (slice(None),) * (len(a.axes) - len(key))
    nontrivial = [(d, k) for d, k in enumerate(key) if not _is_full_slice(k)]
    scal = []
    for d, k in nontrivial:
        s = _index_scalar(a, k, a.axes[d]) if not isinstance(k, (SArr, slice, WhereResult, WhereComp)) else None
        if s is None:
            raise Unsupported("assignment with index %r" % (k,))
        scal.append((d, s))
    tm = a.tmap
    old = a.store.get
    if tm is not None:
        raise Unsupported("assignment through a view")
    dims = [d for d, _ in scal]
    rest = [d for d in range(len(a.axes)) if d not in dims]
    if isinstance(value, SArr):
        if len(value.axes) != len(rest) or any(value.axes[j] is not a.axes[d] for j, d in enumerate(rest)):
            raise Unsupported("slice assignment from an array over a different domain")
        vg = value._snapshot()
        newv = lambda idx: _conv(a.dtype, vg(tuple(idx[d] for d in rest)))
    else:
        sv = value if isinstance(value, SBool) else SNum.lift(value)
        if sv is None:
            raise Unsupported("assignment of %r" % (value,))
        sv = _conv(a.dtype, sv)
        newv = lambda idx: sv
    hit = lambda idx: And(*[bz(idx[d] == s) for d, s in scal])
    a.store.get = lambda idx: elem_ite(hit(idx), newv(idx), old(idx))


def _conv(dtype, x):
    """store x into an array of dtype: masked -> nan for float arrays, bool <-> number"""
    if dtype == "bool":
        if isinstance(x, SBool):
            return x
        return SBool(_truthy(x))
    if isinstance(x, SBool):
        return x.num()
    x = SNum.lift(x)
    if x.k is MASKED or (isinstance(x.k, int) and x.k == MASKED):
        return SNum(NAN)
    if not isinstance(x.k, int):
        return SNum(Ite(x.k == MASKED, NAN, x.k), x.v, is_int=x.is_int)
    return x


# ----------------------------------------------------------------------------------------------
# Reduction atoms
# ----------------------------------------------------------------------------------------------
def _expand(at, idx):
    """re-evaluate the summand of atom `at` at idx; None while `at` is already being expanded further up"""
    if id(at) in CTX.expanding:
        return None
    CTX.expanding.append(id(at))
    try:
        return at.fn(idx)
    finally:
        CTX.expanding.pop()


class Atom(object):
    def __init__(self, kind, axes, fn, const, extra=None):
        self.kind = kind        # 'sum' | 'fn:<name>'
        self.axes = axes
        self.fn = fn            # idx -> z3 term (summand incl. guard)  |  idx -> (sel, SNum) for functionals
        self.const = const      # z3 const standing for the value
        self.extra = extra
        self.nonneg = False
        self.linked = set()


def _fresh_idx(axes, tag="b"):
    return tuple(ax.fresh_index(tag) for ax in axes)


def sum_atom(axes, term_fn, integer=False):
    """Sigma over the domain of term_fn(idx) (guards folded into the term).  Returns a z3 Real/Int const.
    Congruence (R2): two sums over the same domain with pointwise equal summands are the same atom.
    R3: a sum of pointwise non-negative terms is non-negative.  Zero summand => 0."""
    eng = CTX.engine
    if CTX.unroll and all(z3.is_int_value(z3.simplify(ax.size.v)) for ax in axes):
        # concrete extents (witness search): the sum written out
        sizes = [z3.simplify(ax.size.v).as_long() for ax in axes]
        tot = toz(0, "int" if integer else "real")
        for tup in itertools.product(*[range(n) for n in sizes]):
            t = toz(term_fn(tuple(z3.IntVal(j) for j in tup)), "int" if integer else "real")
            if not integer and z3.is_int(t):
                t = z3.ToReal(t)
            tot = tot + t
        return tot
    idx = _fresh_idx(axes)
    # R4 at the comparison index: Sigma t >= t(idx) for every non-negative sum over this domain (so that
    # "this bin is empty" on the path makes the bin's indicator false at idx)
    for f in instantiate_atoms([(tuple(axes), idx)]):
        CTX.facts.append(f)
    t = term_fn(idx)
    t = toz(t, "int" if integer else "real")
    if not integer and z3.is_int(t):
        t = z3.ToReal(t)
    ts = z3.simplify(t)
    if z3.is_int_value(ts) or z3.is_rational_value(ts):
        if ts.as_fraction() == 0 if z3.is_rational_value(ts) else ts.as_long() == 0:
            return toz(0, "int" if integer else "real")
    R = rng(idx)
    zero = toz(0, "int" if integer else "real")
    if pointwise_equal(eng, R, t, zero):
        return zero
    if _mentions(ts, idx) and integer and not _pure_arith(ts) and eng.entails(z3.Implies(R, t == 1), timeout_ms=CONGRUENCE_TIMEOUT_MS):
        ts = z3.IntVal(1)         # an indicator that holds everywhere: the count is the number of index points
    shortcut = None
    if not _mentions(ts, idx):
        # constant summand c: the sum is c * (number of index points)
        n = None
        for ax in axes:
            sz = ax.size.v if integer else (z3.ToReal(ax.size.v) if z3.is_int(ax.size.v) else ax.size.v)
            n = sz if n is None else n * sz
        shortcut = ts * n if n is not None else ts
    matches = []
    for at in CTX.atoms:
        if at.kind == "sum" and len(at.axes) == len(axes) and all(a is b for a, b in zip(at.axes, axes)) and at.extra == integer:
            t2 = _expand(at, idx)
            if t2 is None:
                continue
            t2 = toz(t2, "int" if integer else "real")
            if not integer and z3.is_int(t2):
                t2 = z3.ToReal(t2)
            if pointwise_equal(eng, R, t, t2):
                matches.append(at)
    if shortcut is not None:
        for other in matches:
            CTX.facts.append(other.const == shortcut)
        return shortcut
    if matches:
        # atoms created earlier on this path under a weaker path condition may now be provably equal
        for other in matches[1:]:
            if (matches[0].const.get_id(), other.const.get_id()) not in CTX.equated:
                CTX.equated.add((matches[0].const.get_id(), other.const.get_id()))
                CTX.facts.append(matches[0].const == other.const)
        return matches[0].const
    c = CTX.fresh("sum", "int" if integer else "real")
    at = Atom("sum", tuple(axes), term_fn, c, extra=integer)
    CTX.atom_deps[c.get_id()] = _free_index_ids(ts) - {i.get_id() for i in idx}
    # a sum over an empty index domain is 0
    CTX.facts.append(z3.Implies(z3.Or(*[ax.size.v <= 0 for ax in axes]), c == 0))
    if eng.entails(z3.Implies(R, t >= 0)):
        at.nonneg = True
        CTX.facts.append(c >= 0)
    elif eng.entails(z3.Implies(R, t <= 0)):
        CTX.facts.append(c <= 0)
    # R3': monotonicity against sums over the same domain at the same outer indices (0 <= t <= t2 pointwise
    # gives c <= c2): needed e.g. for "number of members below the threshold <= number of valid members"
    if at.nonneg:
        mine = _free_index_ids(ts)
        for other in CTX.atoms:
            if other.kind != "sum" or not other.nonneg or not _same_domains(other.axes, at.axes):
                continue
            t2 = _expand(other, idx)
            if t2 is None:
                continue
            t2 = toz(t2, "int" if other.extra else "real")
            if _free_index_ids(z3.simplify(t2)) - {i.get_id() for i in idx} != mine - {i.get_id() for i in idx}:
                continue
            a1 = z3.ToReal(t) if z3.is_int(t) else t
            a2 = z3.ToReal(t2) if z3.is_int(t2) else t2
            c1 = z3.ToReal(c) if z3.is_int(c) else c
            c2 = z3.ToReal(other.const) if z3.is_int(other.const) else other.const
            if eng.entails(z3.Implies(R, a1 <= a2), timeout_ms=1000):
                CTX.facts.append(c1 <= c2)
            elif eng.entails(z3.Implies(R, a2 <= a1), timeout_ms=1000):
                CTX.facts.append(c2 <= c1)
    CTX.atoms.append(at)
    return c


_PURE_OPS = None


def _pure_arith(term):
    """True if term is built from +, -, *, /, numerals, constants and uninterpreted applications only
    (no if-then-else, no boolean structure): equality of such terms is decided by their normal form"""
    global _PURE_OPS
    if _PURE_OPS is None:
        _PURE_OPS = {z3.Z3_OP_ADD, z3.Z3_OP_SUB, z3.Z3_OP_MUL, z3.Z3_OP_DIV, z3.Z3_OP_UMINUS, z3.Z3_OP_TO_REAL,
                     z3.Z3_OP_ANUM, z3.Z3_OP_UNINTERPRETED, z3.Z3_OP_POWER}
    seen = set()
    stack = [term]
    while stack:
        t = stack.pop()
        if t.get_id() in seen:
            continue
        seen.add(t.get_id())
        if not z3.is_app(t) or z3.is_bool(t):
            return False
        k = t.decl().kind()
        if k not in _PURE_OPS:
            return False
        stack.extend(t.children())
    return True


def _normal(term):
    return z3.simplify(term, som=True, arith_lhs=False, expand_power=True)


def pointwise_equal(eng, R, t, t2):
    """is R => t == t2 entailed?  normal forms first; the solver only for terms with case structure"""
    if t.eq(t2):
        return True
    n1, n2 = _normal(t), _normal(t2)
    if n1.eq(n2):
        return True
    d = _normal(n1 - n2)
    if z3.is_rational_value(d) or z3.is_int_value(d):
        return d.as_fraction() == 0 if z3.is_rational_value(d) else d.as_long() == 0
    if _pure_arith(n1) and _pure_arith(n2):
        return False        # different polynomials: treated as different (precision only)
    return eng.entails(z3.Implies(R, t == t2), timeout_ms=CONGRUENCE_TIMEOUT_MS)


def _free_index_ids(term):
    """ids of the generic-index constants (those with a registered range) that term depends on -- directly, or
    through an atom constant that was created for a particular value of such an index (atoms created while a
    summand is evaluated at a bound index are functions of that index, although they are z3 constants)"""
    out = set()
    seen = set()
    stack = [term]
    while stack:
        t = stack.pop()
        if t.get_id() in seen:
            continue
        seen.add(t.get_id())
        if t.get_id() in CTX.ranges:
            out.add(t.get_id())
        d = CTX.atom_deps.get(t.get_id())
        if d:
            out |= d
        stack.extend(t.children())
    return out


def _mentions(term, idx):
    ids = {i.get_id() for i in idx}
    return bool(_free_index_ids(term) & ids)


def count_atom(axes, cond_fn):
    """number of domain points where cond holds, as an SNum (int)"""
    c = sum_atom(axes, lambda idx: Ite(bz(cond_fn(idx)), 1, 0), integer=True)
    total = None
    return SNum(FIN, c, is_int=True)


def instantiate_atoms(idx_by_axes):
    """Facts linking non-negative sum atoms to one summand (Sigma t >= t(j) for t >= 0 pointwise),
    instantiated at the generic indices used by a proof goal.  Gives R4 (sum = 0 => every term 0)."""
    out = []
    for at in CTX.atoms:
        if at.kind != "sum" or not at.nonneg:
            continue
        for axes, idx in idx_by_axes:
            if len(axes) == len(at.axes) and all(a is b for a, b in zip(axes, at.axes)):
                key = tuple(i.get_id() for i in idx)
                if key in at.linked:
                    continue
                at.linked.add(key)
                t = _expand(at, idx)
                if t is None:
                    continue
                t = toz(t, "int" if at.extra else "real")
                out.append(z3.Implies(rng(idx), at.const >= t))
    return out


def refresh_atoms(eng):
    """Atoms created early on a path were compared under a weaker set of facts.  Before a goal is proved, compare
    them again (zero summand, pairwise congruence over the same domain) under everything known now."""
    sums = [at for at in CTX.atoms if at.kind == "sum"]
    for a_i, at in enumerate(sums):
        idx = _fresh_idx(at.axes)
        for f in instantiate_atoms([(tuple(at.axes), idx)]):
            CTX.facts.append(f)
        R = rng(idx)
        t = _expand(at, idx)
        if t is None:
            continue
        t = toz(t, "int" if at.extra else "real")
        key0 = ("zero", at.const.get_id())
        if key0 not in CTX.equated and pointwise_equal(eng, R, t, toz(0, "int" if at.extra else "real")):
            CTX.equated.add(key0)
            CTX.facts.append(at.const == 0)
        for other in sums[a_i + 1:]:
            if not _same_domains(at.axes, other.axes) or at.extra != other.extra:
                continue
            key = (at.const.get_id(), other.const.get_id())
            if key in CTX.equated:
                continue
            t2 = _expand(other, idx)
            if t2 is None:
                continue
            t2 = toz(t2, "int" if other.extra else "real")
            if pointwise_equal(eng, R, t, t2):
                CTX.equated.add(key)
                CTX.facts.append(at.const == other.const)


def _same_domains(a_axes, b_axes):
    return len(a_axes) == len(b_axes) and all(a is b for a, b in zip(a_axes, b_axes))


def _arrs_congruent(at, arrs, idx):
    """z3 Bool: the arrays of atom `at` and `arrs` select the same points and hold the same values there"""
    conds = []
    for (sel2, get2), arr in zip(at.fn, arrs):
        g, sel = arr._snapshot(), arr.sel
        s1 = sel(idx) if sel else True
        s2 = sel2(idx) if sel2 else True
        e1, e2 = SNum.lift(_numof(g(idx))), SNum.lift(_numof(get2(idx)))
        conds.append(And(bz(bz(s1) == bz(s2)), Implies(s1, num_eq_term(e1, e2))))
    return bz(And(*conds))


def fn_atom(name, arrs, params=(), kinds=(FIN, NAN, PINF, NINF)):
    """opaque scalar functional of one or several aligned arrays (np.median, np.min, Agg, spearmanr ...):
    congruent in its arguments (R2) -- equal arguments give the same value, nothing else is known"""
    use("functional:" + name)
    if isinstance(arrs, SArr):
        arrs = (arrs,)
    eng = CTX.engine
    axes = arrs[0].axes
    for a in arrs[1:]:
        if not _same_domains(axes, a.axes):
            raise Unsupported("functional of arrays over different domains")
    idx = _fresh_idx(axes)
    for at in CTX.atoms:
        if at.kind == "fn:" + name and at.extra == params and _same_domains(at.axes, axes) and len(at.fn) == len(arrs):
            if eng.entails(z3.Implies(rng(idx), _arrs_congruent(at, arrs, idx)), timeout_ms=CONGRUENCE_TIMEOUT_MS):
                return at.const
    ck = CTX.fresh("fk_" + name, "int")
    cv = CTX.fresh("fv_" + name, "real")
    deps = set()
    for a_ in arrs:
        e_ = SNum.lift(_numof(a_._snapshot()(idx)))
        deps |= _free_index_ids(e_.rv())
        if not isinstance(e_.k, int):
            deps |= _free_index_ids(e_.k)
        if a_.sel is not None:
            deps |= _free_index_ids(bz(a_.sel(idx)))
    deps -= {i.get_id() for i in idx}
    CTX.atom_deps[ck.get_id()] = deps
    CTX.atom_deps[cv.get_id()] = deps
    res = SNum(ck, cv) if len(kinds) > 1 else SNum(kinds[0], cv)
    if len(kinds) > 1:
        CTX.facts.append(z3.Or(*[ck == k for k in kinds]))
    at = Atom("fn:" + name, tuple(axes), [(a.sel, a._snapshot()) for a in arrs], res, extra=params)
    CTX.atoms.append(at)
    return res


def arrfn_atom(name, arr, params=(), kinds=(FIN,)):
    """opaque array-valued function of an array over the same index domain (np.sort, np.argsort ...): congruent"""
    use("functional:" + name)
    eng = CTX.engine
    idx = _fresh_idx(arr.axes)
    for at in CTX.atoms:
        if at.kind == "afn:" + name and at.extra == params and _same_domains(at.axes, arr.axes):
            if eng.entails(z3.Implies(rng(idx), _arrs_congruent(at, (arr,), idx)), timeout_ms=CONGRUENCE_TIMEOUT_MS):
                return at.const
    n = next(CTX.counter)
    sorts = [z3.IntSort()] * len(arr.axes)
    fv = z3.Function("afn_%s!%d_v" % (name, n), *(sorts + [z3.RealSort()]))
    if len(kinds) == 1:
        get = lambda i: SNum(kinds[0], fv(*i))
    else:
        fk = z3.Function("afn_%s!%d_k" % (name, n), *(sorts + [z3.IntSort()]))
        seen = set()

        def get(i):
            k = fk(*i)
            if k.get_id() not in seen:
                seen.add(k.get_id())
                CTX.facts.append(z3.Or(*[k == kk for kk in kinds]))
            return SNum(k, fv(*i))
    out = SArr(arr.axes, get, "float", arr.sel, None, flat=arr.flat)
    at = Atom("afn:" + name, tuple(arr.axes), [(arr.sel, arr._snapshot())], out, extra=params)
    CTX.atoms.append(at)
    return out


def _numof(e):
    return e.num() if isinstance(e, SBool) else e


def first_true_index(cond):
    """np.where(cond)[0][0]: the smallest index at which cond holds (IndexError if there is none)"""
    if len(cond.axes) != 1 or cond.sel is not None:
        raise Unsupported("first index of a filtered / multi-dimensional where() result")
    ax = cond.axes[0]
    g = cond._snapshot()
    n = cond.count_true()
    # the count dominates the indicator at every index term already known for this axis (R3_term)
    for t in list(CTX.axis_terms.get(id(ax), [])):
        CTX.facts.append(z3.Implies(z3.And(t >= 0, t < ax.size.v), n.v >= Ite(bz(g((t,)).z), 1, 0)))
    if not CTX.engine.decide(n.v >= 1):
        raise IndexError("index 0 is out of bounds for axis 0 with size 0")
    f = CTX.fresh("first_" + ax.name, "int")
    CTX.facts.append(z3.And(f >= 0, f < ax.size.v, bz(g((f,)).z)))
    ax.note_index(f)
    # minimality, instantiated at every index term of the axis (now and later)
    ax.add_hook(lambda j: CTX.facts.append(z3.Implies(z3.And(j >= 0, j < f), z3.Not(bz(g((j,)).z)))))
    return SNum(FIN, f, is_int=True, is_numpy=True)


def sorted_facts(arr, strict=True):
    """precondition 'arr is ascending' for a one-dimensional array: pairwise instances at all index terms of its axis"""
    ax = arr.axes[0]
    g = arr._snapshot()

    def hook(j):
        for t in list(CTX.axis_terms.get(id(ax), [])):
            if t.get_id() == j.get_id():
                continue
            a, b = g((j,)), g((t,))
            lt = (a.rv() < b.rv()) if strict else (a.rv() <= b.rv())
            gt = (b.rv() < a.rv()) if strict else (b.rv() <= a.rv())
            inr = z3.And(j >= 0, j < ax.size.v, t >= 0, t < ax.size.v)
            CTX.facts.append(z3.Implies(inr, z3.And(z3.Implies(j < t, lt), z3.Implies(t < j, gt), z3.Implies(j == t, a.rv() == b.rv()))))
    ax.add_hook(hook)



# ---- sums / means over SArr (used by the numpy shim)
def _elem_num(e):
    return SNum.lift(_numof(e))


def along_axis(a, axis, fn):
    """reduction along one axis: element `outer` of the result is fn(the 1-d sub-array of a at `outer`),
    evaluated lazily for the index terms at which the result is read (plain atoms whose summands mention
    those index terms; congruence unifies equal ones)"""
    nd = len(a.axes)
    if a.flat and nd > 1:
        raise Unsupported("axis reduction of a flattened array")
    if axis < 0:
        axis += nd
    if not (0 <= axis < nd):
        raise Unsupported("axis %r out of range" % (axis,))
    inner = a.axes[axis]
    outer_axes = a.axes[:axis] + a.axes[axis + 1:]
    g, sel, msk = a._snapshot(), a.sel, a.mask
    dtype = a.dtype
    memo = {}

    def full(outer, j):
        return tuple(outer[:axis]) + (j[0],) + tuple(outer[axis:])

    def get(outer):
        key = tuple(i.get_id() for i in outer)
        if key not in memo:
            sub = SArr((inner,), lambda j: g(full(outer, j)), dtype,
                       (lambda j: sel(full(outer, j))) if sel is not None else None,
                       (lambda j: msk(full(outer, j))) if msk is not None else None)
            memo[key] = fn(sub)
        return memo[key]
    return SArr(outer_axes, get, "float")


def arr_sum(a, axis=None, skip_nan=False, masked=None):
    """np.sum / np.nansum / np.ma.sum (masked=True): extended-real sum of the selected elements.
    Result kind: NAN if some (unskipped) element is NaN, +-inf by the usual rules, else FIN."""
    if axis is not None:
        return along_axis(a, axis, lambda sub: arr_sum(sub, None, skip_nan, masked))
    g = a._snapshot()
    sel, msk = a.sel, a.mask
    use_mask = msk is not None

    def guard(idx):
        c = sel(idx) if sel else True
        if use_mask:
            c = And(c, Not(msk(idx)))
        return c

    def term(idx):
        e = _elem_num(g(idx))
        c = And(guard(idx), e.isfin())
        return Ite(bz(c), e.rv(), z3.RealVal(0))
    is_int = a.dtype in ("bool", "int")
    if is_int:
        s = sum_atom(a.axes, lambda idx: Ite(bz(guard(idx)), _toint(_elem_num(g(idx)).v), 0), integer=True)
        val = SNum(FIN, s, is_int=True)
        if use_mask:
            n_unmasked = count_atom(a.axes, guard)
            val = SNum(Ite(bz(zeq(n_unmasked.v, 0)), MASKED, FIN), s, is_int=True)
        return val
    s = sum_atom(a.axes, term)
    # kinds of the elements: counts of NaN / +inf / -inf among guarded elements
    def cnt(kindpred):
        return count_atom(a.axes, lambda idx: And(guard(idx), kindpred(_elem_num(g(idx)))))
    pidx = _fresh_idx(a.axes, "p")
    probe = _elem_num(g(pidx))
    hyp = z3.And(rng(pidx), bz(guard(pidx)))

    def possible(pred):
        if pred is False:
            return False
        if pred is True:
            return True
        return not CTX.engine.entails(z3.Implies(hyp, z3.Not(bz(pred))))
    cases = []
    if not skip_nan and possible(probe.isnan_raw()):
        cases.append((bz(cnt(lambda e: e.isnan_raw()).v > 0), NAN))
    has_p = possible(probe.ispinf())
    has_n = possible(probe.isninf())
    if has_p or has_n:
        np_ = cnt(lambda e: e.ispinf()).v if has_p else z3.IntVal(0)
        nn_ = cnt(lambda e: e.isninf()).v if has_n else z3.IntVal(0)
        cases.append((bz(z3.And(np_ > 0, nn_ > 0)), NAN))
        cases.append((bz(np_ > 0), PINF))
        cases.append((bz(nn_ > 0), NINF))
    if possible(probe.ismasked()):
        raise Unsupported("masked elements inside an array")
    k = kite(cases, FIN)
    if use_mask:
        n_unmasked = count_atom(a.axes, guard)
        k = kite([(bz(zeq(n_unmasked.v, 0)), MASKED)], k)
    return norm_kind(SNum(k, s))


def arr_count(a, skip_nan=False):
    g = a._snapshot()
    sel, msk = a.sel, a.mask

    def guard(idx):
        c = sel(idx) if sel else True
        if msk is not None:
            c = And(c, Not(msk(idx)))
        if skip_nan:
            c = And(c, Not(_elem_num(g(idx)).isnan_raw()))
        return c
    if sel is None and msk is None and not skip_nan:
        return a.size_term()
    return count_atom(a.axes, guard)


def arr_mean(a, axis=None, skip_nan=False):
    """np.mean (np.ma.mean for masked arrays) / np.nanmean: sum / count, NaN for an empty selection"""
    if axis is not None:
        return along_axis(a, axis, lambda sub: arr_mean(sub, None, skip_nan))
    s = arr_sum(a, skip_nan=skip_nan)
    n = arr_count(a, skip_nan=skip_nan)
    r = num_div(s, SNum(FIN, n.v, is_int=True, is_numpy=True))
    if a.mask is not None:
        # np.ma.mean of nothing is masked
        r = SNum(Ite(bz(zeq(n.v, 0)), MASKED, r.k), r.v)
    return r
