"""pyvc.runner -- `./check <ID> --tier quick|thorough`, `./check --replay <file>`.

Exit codes: 0 held (KNOWN-FINDING lines allowed) | 1 violation (VIOLATION line printed) | 3 checker error.
"""
import argparse
import fnmatch
import json
import multiprocessing
import os
import subprocess
import sys
import time

VERIF_DIR = os.path.dirname(os.path.dirname(os.path.abspath(__file__)))
REPO = os.environ.get("PYVC_REPO", "/repo")


def _import_repo():
    if REPO not in sys.path:
        sys.path.insert(0, REPO)
    os.environ.setdefault("MPLBACKEND", "Agg")
    import verif
    root = os.path.realpath(os.path.dirname(os.path.dirname(verif.__file__)))
    if root != os.path.realpath(REPO):
        print("pyvc: verif imported from %s, expected %s" % (root, REPO))
        sys.exit(3)
    return verif


def _worker(args):
    name, timeout_ms, second = args
    import warnings
    warnings.simplefilter("ignore")
    from pyvc import framework
    import contracts
    o = framework.REGISTRY[name]
    try:
        if getattr(o, "runner", None) is not None:
            r = o.runner(o, timeout_ms=timeout_ms, second=second)
        else:
            r = framework.run_obligation(o, timeout_ms=timeout_ms, second=second)
        rep = None
        if getattr(o, "runner", None) is not None:
            return r.to_json()
        if r.status == "discharged" and r.decls and not getattr(o, "no_unroll", False) and not getattr(o, "no_crosscheck", False):
            # A2 / A1 guard: the contract that was just PROVED for all inputs is also evaluated on the real code with the
            # installed NumPy on a handful of concrete inputs; a failure there means the shim's model of NumPy (or the
            # engine) is wrong, or that the code breaks the contract outside the model (rounding): reported with its input
            stats = {}
            try:
                w = framework.enumerate_witness(o, r.decls, seed=int(os.environ.get("VERIF_SEED", "0")) + 17,
                                                budget=(600 if os.environ.get("PYVC_TIER") == "thorough" else 60), stats=stats)
            except Exception as e:
                w = None
                r.note += " cross-check crashed: %r;" % (e,)
            r.cases = stats.get("evaluated", 0)
            if w is not None:
                r.status = "refuted"
                r.witness, r.replay = w[0], w[1]
                for lab in w[1]["failed"]:
                    r.goals.append(framework.GoalResult(lab, "sat", 0.0, backend="concrete-crosscheck", path=0))
                r.note += " PROVED symbolically but a concrete input on the real code with the installed NumPy violates the contract (shim / rounding): %d tried" % w[2]
            return r.to_json()
        if r.status == "undecided" and r.decls and not getattr(o, "no_unroll", False):
            # DESIGN 2.9: an undecided obligation is evaluated concretely on the real function over the bounded
            # enumerator; only a concrete failing input turns it into a violation
            try:
                w = framework.enumerate_witness(o, r.decls, seed=int(os.environ.get("VERIF_SEED", "0")))
            except Exception as e:
                w = None
                r.note += " enumerate_witness crashed: %r;" % (e,)
            if w is not None:
                r.status = "refuted"
                r.witness, r.replay = w[0], w[1]
                for lab in w[1]["failed"]:
                    r.goals.append(framework.GoalResult(lab, "sat", 0.0, backend="concrete-enumeration", path=0))
                r.note += " undecided symbolically; failing input found by concrete search over small grids (%d tried)" % w[2]
            return r.to_json()
        if r.status == "refuted" and r.witness is not None:
            try:
                rep = framework.replay(o, r.witness)
            except Exception as e:
                rep = {"outcome": "replay-crashed", "failed": [], "observed": repr(e)}
            r.replay = rep
        if r.status == "refuted" and not (r.replay and r.replay.get("failed")) and not getattr(o, "no_unroll", False):
            w = None
            try:
                w = framework.enumerate_witness(o, r.decls, seed=int(os.environ.get("VERIF_SEED", "0")))
            except Exception as e:
                r.note += " enumerate_witness crashed: %r;" % (e,)
            if w is not None:
                r.witness, r.replay = w[0], w[1]
                r.note += " failing input found by concrete search over small grids (%d tried)" % w[2]
            else:
                w = framework.find_witness(o, timeout_ms=timeout_ms)
                if w is not None:
                    r.witness, r.replay = w
                    r.note += " witness found with concrete array extents (sums written out)"
        return r.to_json()
    except Exception:
        import traceback
        return {"name": name, "status": "error", "note": traceback.format_exc(), "goals": [], "paths": 0, "seconds": 0,
                "solver_seconds": 0, "solver_calls": 0, "assumed": [], "witness": None, "replay": None, "canary": None}


def git_tree_state():
    try:
        head = subprocess.run(["git", "-C", REPO, "rev-parse", "HEAD"], capture_output=True, text=True).stdout.strip()
        dirty = subprocess.run(["git", "-C", REPO, "status", "--porcelain", "--untracked-files=no"], capture_output=True, text=True).stdout.strip()
        return head, bool(dirty)
    except Exception:
        return "unknown", True


def load_known():
    p = os.path.join(VERIF_DIR, "known_findings.json")
    if not os.path.exists(p):
        return []
    return json.load(open(p))["findings"]


def load_expected():
    p = os.path.join(VERIF_DIR, "contracts", "EXPECTED.json")
    if not os.path.exists(p):
        return {"obligations": {}, "repo_head": None}
    return json.load(open(p))


def main(argv=None):
    ap = argparse.ArgumentParser()
    ap.add_argument("prop", nargs="?")
    ap.add_argument("--tier", default=os.environ.get("VERIF_TIER", "quick"))
    ap.add_argument("--replay")
    ap.add_argument("--only", help="fnmatch pattern on obligation names")
    ap.add_argument("--jobs", type=int, default=min(16, os.cpu_count() or 4))
    ap.add_argument("--list", action="store_true")
    ap.add_argument("--write-expected", action="store_true")
    ap.add_argument("--verbose", "-v", action="store_true")
    ap.add_argument("--no-evidence", action="store_true", help="do not write evidence/ and replays/ (mutant self-test)")
    a = ap.parse_args(argv)

    t0 = time.time()
    _import_repo()
    sys.path.insert(0, VERIF_DIR)
    from pyvc import framework, evidence
    import contracts
    contracts.load_all()

    if a.replay:
        return do_replay(a.replay)

    names = [n for n, o in framework.REGISTRY.items() if (a.prop is None or a.prop in o.props)]
    if a.only:
        names = [n for n in names if fnmatch.fnmatch(n, a.only)]
    if a.tier == "quick":
        names = [n for n in names if not getattr(framework.REGISTRY[n], "thorough_only", False)]
    if a.list:
        for n in names:
            print(n)
        return 0
    if not names:
        print("pyvc: no obligations for %s" % a.prop)
        return 3

    os.environ["PYVC_TIER"] = a.tier
    seed = int(os.environ.get("VERIF_SEED", "0"))
    timeout_ms = 20000 if a.tier == "quick" else 60000
    second = a.tier == "thorough"
    head, dirty = git_tree_state()
    import z3
    print("pyvc: %s @ %s%s  python %s  z3 %s  tier %s" % (REPO, head[:10], " (dirty)" if dirty else "", sys.version.split()[0], z3.get_version_string(), a.tier))

    jobs = [(n, timeout_ms, second) for n in names]
    results = []
    if a.jobs > 1 and len(jobs) > 1:
        ctx = multiprocessing.get_context("fork")
        with ctx.Pool(min(a.jobs, len(jobs)), maxtasksperchild=1) as pool:
            for r in pool.imap_unordered(_worker, jobs, chunksize=1):
                results.append(r)
                if a.verbose:
                    print("  %-11s %s (%d paths, %.2fs)" % (r["status"], r["name"], r["paths"], r["seconds"]))
    else:
        for j in jobs:
            r = _worker(j)
            results.append(r)
            if a.verbose:
                print("  %-11s %s (%d paths, %.2fs) %s" % (r["status"], r["name"], r["paths"], r["seconds"], r["note"][:2000]))
    results.sort(key=lambda r: r["name"])

    if a.write_expected:
        exp = load_expected()
        for r in results:
            exp["obligations"][r["name"]] = r["status"]
        exp["repo_head"] = head
        json.dump(exp, open(os.path.join(VERIF_DIR, "contracts", "EXPECTED.json"), "w"), indent=1, sort_keys=True)

    return evidence.report(a.prop, a.tier, seed, results, framework.REGISTRY, load_known(), load_expected(), head, dirty, time.time() - t0,
                           write=not (a.no_evidence or a.only))


def do_replay(path):
    from pyvc import framework
    d = json.load(open(path))
    o = framework.REGISTRY.get(d["obligation"])
    if o is None:
        print("unknown obligation %s" % d["obligation"])
        return 3
    if getattr(o, "runner", None) is not None:
        r = o.runner(o)
        print("obligation: %s -> %s %s" % (o.name, r.status, r.note))
        return 1 if r.status == "refuted" else 0
    if d.get("witness") is None:
        print("replay file carries no concrete input (no-failing-input-found); solver output:\n%s" % d.get("solver_output", ""))
        return 1
    rep = framework.replay(o, d["witness"])
    print("obligation: %s" % d["obligation"])
    print("inputs: %s" % json.dumps({k: v for k, v in d["witness"].items() if not k.startswith("_")}))
    print("real code outcome: %s  observed: %s" % (rep["outcome"], rep["observed"]))
    if rep["failed"]:
        print("contract clauses violated: %s" % ", ".join(rep["failed"]))
        return 1
    print("contract holds on this input")
    return 0


if __name__ == "__main__":
    sys.exit(main())
