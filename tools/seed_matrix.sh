#!/bin/sh
# tools/seed_matrix.sh : run the quick check of every seeded change against a scratch worktree with the change applied;
# prints for each seed how it is reported (replayed witness vs no-failing-input-found vs missed)
# PYVC_SNAP: run the checks from a snapshot copy of /verif (so that /verif can be edited meanwhile)
V=${PYVC_SNAP:-/verif}
cd /verif
for d in seeded/*/; do
  name=$(basename $d); prop=$(echo $name | cut -d- -f1)
  wt=/tmp/sm-$name
  git -C /repo worktree remove --force $wt 2>/dev/null
  git -C /repo worktree add -q --detach $wt HEAD || continue
  if git -C $wt apply /verif/$d/patch.diff 2>/dev/null; then
    out=$(PYVC_REPO=$wt $V/check $prop --tier quick --no-evidence 2>&1)
    rc=$?
    nv=$(echo "$out" | grep -c "^VIOLATION")
    nf=$(echo "$out" | grep "^VIOLATION" | grep -c "no-failing-input-found")
    nu=$(echo "$out" | grep -c "^UNDECIDED")
    echo "$name rc=$rc violations=$nv (without-input=$nf) undecided=$nu"
  else
    echo "$name patch-does-not-apply"
  fi
  git -C /repo worktree remove --force $wt
done
