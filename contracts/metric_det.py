"""Contracts for the deterministic metrics of verif/metric.py (C05) and the pair filtering in front of them (C04)."""
import numpy as _np

import verif.metric
import verif.aggregator
import verif.interval

from pyvc import sym
from pyvc.framework import Obligation, register, Bag, FIN, NAN, PINF, NINF, ALL_KINDS, bounded_obligation
from .common import member, NOT_NAN

MOD = [verif.metric, verif.interval, verif.aggregator, verif.util]


class DualAgg(verif.aggregator.Aggregator):
    """the metric's aggregator as an uninterpreted functional Agg(array) (what each aggregator computes is C15);
    in concrete replays it is the real Median, so that swapping it for a fixed np.mean is visible"""
    def __init__(self):
        self.real = verif.aggregator.Median()

    def __call__(self, array, axis=None):
        if isinstance(array, sym.SArr):
            if axis is not None and len(array.axes) > 1:
                return sym.along_axis(array, axis, lambda sub: sym.fn_atom("Agg", sub, ()))
            return sym.fn_atom("Agg", array, ())
        return self.real(array, axis=axis)


# ------------------------------------------------------------------ pair filtering (C04)
def _pair_filter():
    def setup(G):
        return Bag(obs=G.array("obs", ("n",), kinds=ALL_KINDS), fcst=G.array("fcst", ("n",), kinds=ALL_KINDS),
                   v=G.num("v", kinds=ALL_KINDS), rec={})

    def call(inp):
        m = verif.metric.Mae()

        def stub(obs, fcst):
            inp.rec["args"] = (obs, fcst)
            return inp.v
        m._compute_from_obs_fcst = stub
        return m.compute_from_obs_fcst(inp.obs, inp.fcst)

    def post(S, inp, out):
        obs, fcst = inp.obs, inp.fcst
        valid = lambda i: S.and_(S.not_(S.isnan(S.at(obs, i))), S.not_(S.isnan(S.at(fcst, i))))
        nvalid = S.count_where(obs, valid)
        if "args" not in inp.rec:
            return [("no-valid-pair-gives-nan", S.and_(S.same(nvalid, 0), S.isnan(out)))]
        o2, f2 = inp.rec["args"]
        ok = (~_np.isnan(obs)) & (~_np.isnan(fcst)) if not S.symbolic else None
        if S.symbolic:
            import pyvc.shim_np as sh
            ok = (sh.np_shim.isnan(obs) | sh.np_shim.isnan(fcst)) == 0
        return [("PRE@callsite:metric-receives-exactly-the-valid-pairs,aligned",
                 S.and_(S.same_array(o2, S.filtered(obs, ok)), S.same_array(f2, S.filtered(fcst, ok)))),
                ("PRE@callsite:at-least-one-pair", nvalid >= 1),
                ("result-returned-unchanged", S.same(out, inp.v))]
    return setup, call, post


s, c, p = _pair_filter()
register(Obligation("verif.metric.ObsFcstBased.compute_from_obs_fcst#POST:pairwise-removal", ("C04", "C05"), s, c, p, modules=MOD))


# ------------------------------------------------------------------ textbook definitions
def _mean(S, x): return S.mean(x)
def _dev2sum(S, x): return S.sum((x - S.mean(x)) ** 2)


def D_mae(S, o, f, A): return A(abs(o - f))
def D_bias(S, o, f, A): return A(f - o)
def D_diff(S, o, f, A): return A(f) - A(o)
def D_ratio(S, o, f, A):
    den = A(o)
    return S.ite(S.same(den, 0), S.nan, A(f) / den)
def D_rmse(S, o, f, A): return S.sqrt(A((o - f) ** 2))
def D_cmae(S, o, f, A): return S.cbrt(A(abs(o ** 3 - f ** 3)))
def D_rmsf(S, o, f, A): return S.exp(S.sqrt(A(S.log_arr(f / o) ** 2)))
def D_stderror(S, o, f, A):
    e = o - f
    return S.sqrt(S.sum((e - S.mean(e)) ** 2) / S.count(e))
def D_obsstd(S, o, f, A): return S.sqrt(_dev2sum(S, o) / S.count(o))
def D_fcststd(S, o, f, A): return S.sqrt(_dev2sum(S, f) / S.count(f))
def D_ef(S, o, f, A): return S.count_where(o, lambda i: S.at(o, i) < S.at(f, i)) / S.to_num(S.count(o))
def D_nsec(S, o, f, A):
    den = _dev2sum(S, o)
    return S.ite(S.same(den, 0), S.nan, 1 - S.sum((f - o) ** 2) / den)
def D_nnsec(S, o, f, A):
    den = _dev2sum(S, o)
    return S.ite(S.same(den, 0), S.nan, 1 / (2 - (1 - S.sum((f - o) ** 2) / den)))
def _corr(S, o, f):
    do, df = o - S.mean(o), f - S.mean(f)
    return S.sum(do * df) / S.sqrt(S.sum(do ** 2) * S.sum(df ** 2))
def D_corr(S, o, f, A):
    n = S.count(o)
    return S.ite(S.or_(n <= 1, S.same(_dev2sum(S, f), 0)), S.nan, _corr(S, o, f))
def D_kge(S, o, f, A):
    so, sf = S.sqrt(_dev2sum(S, o) / S.count(o)), S.sqrt(_dev2sum(S, f) / S.count(f))
    r = _corr(S, o, f)
    v = 1 - S.sqrt((r - 1) ** 2 + (S.mean(f) / S.mean(o) - 1) ** 2 + (sf / so - 1) ** 2)
    return S.ite(S.or_(S.same(so, 0), S.same(sf, 0)), S.nan, v)
def D_alpha(S, o, f, A):
    # Koh et al.: alpha = sum((f' - o')^2) / sum(f'^2 + o'^2), primes = anomalies; range [0, 2], 0 perfect
    mo, mf = S.mean(o), S.mean(f)
    den = S.sum((f - mf) ** 2 + (o - mo) ** 2)
    return S.ite(S.same(den, 0), S.nan, S.sum((f - o - mf + mo) ** 2) / den)
def D_dmb(S, o, f, A): return S.mean(o) / S.mean(f)
def D_mbias(S, o, f, A):
    den = S.mean(o)
    return S.ite(S.same(den, 0), S.nan, S.mean(f) / den)
def D_derror(S, o, f, A): return S.mean(abs(S.sort(o) - S.sort(f)))
def D_rankcorr(S, o, f, A):
    return S.ite(S.count(o) <= 1, S.nan, S.fn2("spearmanr", o, f))
def D_kendall(S, o, f, A):
    return S.ite(S.or_(S.count(o) <= 1, S.same(_dev2sum(S, f), 0)), S.nan, S.fn2("kendalltau", o, f))


# name -> (class, definition, uses aggregator, check PERFECT, check BOUND)
METRICS = {
    "mae": ("Mae", D_mae, True, True, True),
    "bias": ("Bias", D_bias, True, True, False),
    "diff": ("Diff", D_diff, True, True, False),
    "ratio": ("Ratio", D_ratio, True, True, False),
    "rmse": ("Rmse", D_rmse, True, True, True),
    "cmae": ("Cmae", D_cmae, True, True, True),
    "rmsf": ("Rmsf", D_rmsf, True, True, False),
    "stderror": ("StdError", D_stderror, False, True, True),
    "obsstddev": ("ObsStdDev", D_obsstd, False, False, True),
    "fcststddev": ("FcstStdDev", D_fcststd, False, False, True),
    "ef": ("Ef", D_ef, False, False, False),
    "nsec": ("Nsec", D_nsec, False, True, True),
    "nnsec": ("Nnsec", D_nnsec, False, True, True),
    "corr": ("Corr", D_corr, False, True, True),
    "kge": ("Kge", D_kge, False, True, True),
    "alphaindex": ("Alphaindex", D_alpha, False, True, True),
    "dmb": ("Dmb", D_dmb, False, True, False),
    "mbias": ("Mbias", D_mbias, False, True, False),
    "derror": ("DError", D_derror, False, True, True),
    "rankcorr": ("RankCorr", D_rankcorr, False, False, False),
    "kendallcorr": ("KendallCorr", D_kendall, False, False, False),
}
# why PERFECT / BOUND is not stated for some metrics (reported in the evidence through `assumptions`)
EXCLUDED = [
    "C05: ef is a frequency (neither error nor skill): no perfect-score/bound obligation",
    "C05: obsstddev/fcststddev: 'perfect' is a property of the data, not of the forecast: only the bound >= 0 is stated",
    "C05: rankcorr/kendallcorr: value is SciPy's spearmanr/kendalltau of the valid pairs (uninterpreted); arguments and guards are checked, SciPy's range and perfect value are assumed (A2)",
    "C05: PERFECT is stated for the default aggregator (mean); DEF holds for every aggregator (Agg uninterpreted)",
]


def _positive(name):
    return name in ("rmsf",)


def _det_setup(G, name, same=False):
    kinds = (FIN,)
    obs = G.array("obs", ("n",), kinds=kinds, min_size=1)
    fcst = obs if same else G.array("fcst", ("n",), kinds=kinds, min_size=1)
    return Bag(obs=obs, fcst=fcst)


def _det_def(name):
    cls_name, D, uses_agg, _, _ = METRICS[name]
    cls = getattr(verif.metric, cls_name)

    def setup(G):
        inp = _det_setup(G, name)
        inp.agg = DualAgg()
        return inp

    def call(inp):
        m = cls()
        if uses_agg:
            m.aggregator = inp.agg
        return m._compute_from_obs_fcst(inp.obs, inp.fcst)

    def post(S, inp, out):
        want = D(S, inp.obs, inp.fcst, inp.agg)
        return [("DEF:equals-textbook-definition-where-defined", S.implies(S.isfin(want), S.same(out, want))),
                ("UNDEF:not-a-finite-number-where-undefined", S.implies(S.not_(S.isfin(want)), S.not_(S.isfin(out))))]
    return setup, call, post


def _det_perfect(name):
    cls_name, D, uses_agg, _, _ = METRICS[name]
    cls = getattr(verif.metric, cls_name)

    def setup(G):
        return _det_setup(G, name, same=True)

    def call(inp):
        return cls()._compute_from_obs_fcst(inp.obs, inp.fcst)

    def post(S, inp, out):
        return [("PERFECT:forecast-equal-to-observations-attains-the-documented-perfect-score-where-defined",
                 S.implies(S.isfin(out), S.same(out, cls.perfect_score)))]
    return setup, call, post


def _det_bound(name):
    cls_name, D, uses_agg, _, _ = METRICS[name]
    cls = getattr(verif.metric, cls_name)

    def setup(G):
        return _det_setup(G, name)

    def call(inp):
        return cls()._compute_from_obs_fcst(inp.obs, inp.fcst)

    def post(S, inp, out):
        ps = cls.perfect_score
        if cls.orientation == 1:
            g = out <= ps
        else:
            g = out >= ps
        return [("BOUND:no-forecast-scores-better-than-perfect", S.implies(S.isfin(out), g))]
    return setup, call, post


for _n, (_cls, _D, _ua, _pf, _bd) in sorted(METRICS.items()):
    fnname = "verif.metric.%s._compute_from_obs_fcst" % _cls
    s, c, p = _det_def(_n)
    register(Obligation(fnname + "#POST:definition", ("C05",), s, c, p, modules=MOD, assumptions=EXCLUDED))
    if _pf:
        s, c, p = _det_perfect(_n)
        register(Obligation(fnname + "#POST:perfect", ("C05",), s, c, p, modules=MOD, functions=[fnname]))
    if _bd:
        s, c, p = _det_bound(_n)
        register(Obligation(fnname + "#POST:bound", ("C05",), s, c, p, modules=MOD, functions=[fnname]))


# ------------------------------------------------------------------ LEPS: proved (searchsorted contract) and, in addition, bounded
def D_leps(S, o, f, A):
    n = S.to_num(S.count(o))

    def F(x):
        # empirical CDF of the observations
        return S.to_num(S.count_where(o, lambda j: S.at(o, j) <= x)) / n
    return S.sum_where(o, lambda i: abs(F(S.at(f, i)) - F(S.at(o, i)))) / n


METRICS["leps"] = ("Leps", D_leps, False, True, True)
for _kind, _mk in (("definition", _det_def), ("perfect", _det_perfect), ("bound", _det_bound)):
    s, c, p = _mk("leps")
    register(Obligation("verif.metric.Leps._compute_from_obs_fcst#POST:%s" % _kind, ("C05",), s, c, p, modules=MOD,
                        functions=["verif.metric.Leps._compute_from_obs_fcst"],
                        assumptions=["np.searchsorted(np.sort(x), v, side='right')[i] = number of elements of x that are <= v[i] (assumed contract)"]))


# ------------------------------------------------------------------ LEPS: bounded stand-in as well (concrete NumPy)
def _leps():
    def setup(G):
        inp = Bag(obs=G.array("obs", ("n",), kinds=(FIN,), min_size=1), fcst=G.array("fcst", ("n",), kinds=(FIN,), min_size=1))
        return inp

    def call(inp):
        return verif.metric.Leps()._compute_from_obs_fcst(inp.obs, inp.fcst)

    def post(S, inp, out):
        o, f = _np.asarray(inp.obs, float), _np.asarray(inp.fcst, float)
        n = len(o)
        F = lambda x: _np.sum(o <= x) / float(n)          # empirical CDF of the observations
        want = _np.mean([abs(F(f[i]) - F(o[i])) for i in range(n)])
        goals = [("DEF:mean-abs-difference-in-observed-cdf-space", S.same(out, want))]
        if _np.array_equal(o, f):
            goals.append(("PERFECT:forecast-equal-to-observations-scores-0", S.same(out, 0.0)))
        goals.append(("BOUND:non-negative", out >= 0))
        return goals
    return setup, call, post


s, c, p = _leps()
bounded_obligation("verif.metric.Leps._compute_from_obs_fcst#BOUNDED:definition-perfect-bound", ("C05",), s, c, p,
                   bound="all obs/fcst vectors of length 1..3 over the value grid {0,1,2,-1} (exhaustive), same contract in concrete mode",
                   sizes=(1, 2, 3))


# ------------------------------------------------------------------ Within
def _within():
    def setup(G):
        return Bag(obs=G.array("obs", ("n",), kinds=(FIN,), min_size=1), fcst=G.array("fcst", ("n",), kinds=(FIN,), min_size=1),
                   lower=G.num("lower", kinds=NOT_NAN), upper=G.num("upper", kinds=NOT_NAN),
                   lower_eq=G.boolean("lower_eq"), upper_eq=G.boolean("upper_eq"))

    def call(inp):
        iv = verif.interval.Interval(inp.lower, inp.upper, inp.lower_eq, inp.upper_eq)
        return verif.metric.Within().compute_from_obs_fcst(inp.obs, inp.fcst, iv)

    def post(S, inp, out):
        o, f = inp.obs, inp.fcst
        cnt = S.count_where(o, lambda i: member(S, abs(S.at(o, i) - S.at(f, i)), inp.lower, inp.upper, bool(inp.lower_eq), bool(inp.upper_eq)))
        want = S.to_num(cnt) / S.to_num(S.count(o)) * 100
        return [("DEF:percentage-of-pairs-with-abs-error-in-interval", S.same(out, want))]
    return setup, call, post


s, c, p = _within()
register(Obligation("verif.metric.Within.compute_from_obs_fcst#POST:definition", ("C05", "C07"), s, c, p, modules=MOD))


# ------------------------------------------------------------------ C14: shift invariance (anomaly scores)
def _shift_invariant(cls_name):
    cls = getattr(verif.metric, cls_name)

    def setup(G):
        return Bag(obs=G.array("obs", ("n",), kinds=(FIN,), min_size=1), fcst=G.array("fcst", ("n",), kinds=(FIN,), min_size=1),
                   clim=G.array("clim", ("n",), kinds=(FIN,), min_size=1), agg=DualAgg())

    def call(inp):
        m = cls()
        if cls.supports_aggregator:
            m.aggregator = inp.agg
        return m._compute_from_obs_fcst(inp.obs, inp.fcst), m._compute_from_obs_fcst(inp.obs - inp.clim, inp.fcst - inp.clim)

    def post(S, inp, out):
        raw, anomaly = out
        return [("score-of-anomalies-equals-score-of-raw-values(on-the-same-valid-cases)", S.same(raw, anomaly))]
    return setup, call, post


for _c in ("Mae", "Bias", "Rmse", "StdError"):
    s, c, p = _shift_invariant(_c)
    register(Obligation("verif.metric.%s._compute_from_obs_fcst#LEMMA:invariant-under-subtracting-a-climatology" % _c, ("C14",), s, c, p, modules=MOD,
                        functions=["verif.metric.%s._compute_from_obs_fcst" % _c]))


# ------------------------------------------------------------------ exact-zero guards and rounding (outside A1; specific inputs, known findings)
def _constant_inexact(metric_name, which):
    """a series that is constant but whose value (0.1) is not exactly representable: its floating-point variance is 2e-34, not 0, so
    a guard of the form `np.var(x) == 0` / `denom == 0` does not fire and the metric returns a number where its definition is
    undefined (zero variance).  Decided on the real code for these inputs only; the contracts above are proved over the reals (A1)."""
    def body():
        import warnings
        o = _np.array([0.1, 0.1, 0.1]); g = _np.array([0.2, 0.3, 0.5])
        obs, fcst = {"both-constant": (o, o.copy()), "constant-obs": (o, g), "constant-fcst": (g, o)}[which]
        M = getattr(verif.metric, metric_name)()
        with warnings.catch_warnings():
            warnings.simplefilter("ignore")
            v = float(M._compute_from_obs_fcst(obs, fcst))
        if _np.isfinite(v):
            return 1, {"metric": metric_name, "obs": obs.tolist(), "fcst": fcst.tolist(), "returned": v,
                       "want": "NaN or a non-finite value: the definition divides by a variance that is zero"}
        return 1, None
    return body


from .axis import _enumerated as _enum_float
for _mn, _cases in (("Corr", ("both-constant", "constant-obs", "constant-fcst")), ("Kge", ("both-constant", "constant-obs")),
                    ("Nsec", ("both-constant", "constant-obs")), ("Nnsec", ("both-constant", "constant-obs")), ("Alphaindex", ("both-constant",))):
    for _w in _cases:
        _enum_float("verif.metric.%s._compute_from_obs_fcst#FLOAT:%s-series-of-0.1-is-undefined" % (_mn, _w), ("C05",),
                    "one input: the constant series [0.1, 0.1, 0.1] (and [0.2, 0.3, 0.5] as the other series)", _constant_inexact(_mn, _w),
                    ["verif.metric.%s._compute_from_obs_fcst" % _mn])
