"""Sidecar contracts for WFRT/verif, one module per repository module.  Importing a module registers its
obligations in pyvc.framework.REGISTRY.  The repository files are not touched."""
MODULES = ["contracts.interval", "contracts.util", "contracts.metric_contingency", "contracts.data", "contracts.metric_det", "contracts.metric_field", "contracts.metric_prob", "contracts.aggregator", "contracts.axis", "contracts.driver", "contracts.output_appearance", "contracts.output_table", "contracts.input_text", "contracts.input_netcdf"]


def load_all():
    import importlib
    for m in MODULES:
        importlib.import_module(m)
