"""pyvc.framework -- obligations, dual (symbolic / concrete) generators and spec library, runner.

An obligation is a triple of ordinary Python functions

    setup(G)            builds the inputs from generator primitives (G.array, G.num, ...)
    call(inp)           calls the REAL function from /repo on those inputs
    post(S, inp, out)   the contract, written against the spec library S; returns [(label, goal), ...]

Both setup and post have two interpretations: symbolic (z3 terms; the proof) and concrete
(NumPy values; replay of counterexamples, bounded stand-ins, run-time cross-check).
"""
import json
import math
import os
import time
import traceback

import numpy as _np
import z3

from . import sym, engine, shim_np
from .sym import (CTX, SNum, SBool, SArr, Axis, FIN, NAN, PINF, NINF, MASKED, And, Or, Not, Implies, Ite, bz, zeq,
                  Unsupported, Abort)

ALL_KINDS = (FIN, NAN, PINF, NINF)

REGISTRY = {}


class Bag(dict):
    __getattr__ = dict.__getitem__

    def __setattr__(self, k, v):
        self[k] = v


class Obligation(object):
    def __init__(self, name, props, setup, call, post, modules=(), raises=None, kind=None, patch=None, doc="",
                 bounded=None, canary=None, allow_abort=False, functions=None, shadows=True, assumptions=()):
        self.name = name
        self.props = tuple(props)
        self.setup, self.call, self.post = setup, call, post
        self.modules = tuple(modules)     # modules whose global `np` (and builtins) are rebound
        self.raises = raises              # None | callable(S, inp, outcome) -> [(label, goal)] for abort/raise paths
        self.kind = kind or name.split("#", 1)[1].split(":", 1)[0]
        self.patch = patch                # optional callable(inp) -> context manager installing stubs
        self.doc = doc
        self.bounded = bounded            # None or text describing the bound (then never counted as discharged)
        self.canary = canary              # optional post-like callable that must be REFUTED
        self.allow_abort = allow_abort
        self.functions = functions or [name.split("#", 1)[0]]
        self.shadows = shadows
        self.assumptions = tuple(assumptions)


def ob(name, props, **kw):
    def deco(fn):
        parts = fn()
        o = Obligation(name, props, parts["setup"], parts["call"], parts["post"],
                       **{k: v for k, v in parts.items() if k not in ("setup", "call", "post")}, **kw)
        if name in REGISTRY:
            raise ValueError("duplicate obligation " + name)
        REGISTRY[name] = o
        return fn
    return deco


def register(o):
    if o.name in REGISTRY:
        raise ValueError("duplicate obligation " + o.name)
    REGISTRY[o.name] = o
    return o


# ----------------------------------------------------------------------------------------------
# generators
# ----------------------------------------------------------------------------------------------
class SymGen(object):
    """symbolic inputs; every primitive is recorded so a model can be turned back into concrete inputs"""
    symbolic = True

    def __init__(self):
        self.decls = []      # (kind, name, info)
        self.axes = {}

    def axis(self, name, size=None, min_size=0):
        if name in self.axes:
            return self.axes[name]
        if size is None and CTX.unroll:
            ax = Axis(name, max(CTX.unroll, min_size))
            self.axes[name] = ax
            self.decls.append(("axis", name, {"size": max(CTX.unroll, min_size)}))
            return ax
        ax = Axis(name, size)
        if size is None and min_size:
            CTX.facts.append(ax.size.v >= min_size)
        self.axes[name] = ax
        self.decls.append(("axis", name, {"size": size}))
        return ax

    def array(self, name, axes=("n",), kinds=ALL_KINDS, dtype="float", min_size=0, bound_axis=None, grid=None, between=None):
        axs = tuple(self.axis(a, min_size=min_size) if isinstance(a, str) else a for a in axes)
        self._grid = grid
        if dtype == "int":
            kinds = (FIN,)
        nan_free = NAN not in kinds
        finite = PINF not in kinds and NINF not in kinds
        a = sym.raw_array(name, axs, dtype=dtype, nan_free=nan_free, finite=finite, kinds=list(kinds))
        if bound_axis is not None:
            # index array: every element is a valid position of bound_axis (asserted where an element is read)
            g0 = a.store.get
            seen = set()

            def get(idx):
                e = g0(idx)
                if e.v.get_id() not in seen:
                    seen.add(e.v.get_id())
                    CTX.facts.append(z3.And(e.v >= 0, e.v < bound_axis.size.v))
                return e
            a.store.get = get
        if between is not None:
            g1 = a.store.get
            seen2 = set()
            lo_, hi_ = between

            def get2(idx):
                e = g1(idx)
                if e.v.get_id() not in seen2:
                    seen2.add(e.v.get_id())
                    CTX.facts.append(z3.Implies(bz(e.isfin()), z3.And(e.rv() >= lo_, e.rv() <= hi_)))
                return e
            a.store.get = get2
            if grid is None:
                grid = [lo_, hi_, (lo_ + hi_) / 2.0, lo_ + (hi_ - lo_) * 0.1, lo_ + (hi_ - lo_) * 0.25]
        self.decls.append(("array", name, {"axes": [x.name for x in axs], "kinds": list(kinds), "dtype": dtype, "grid": grid,
                                           "bound_axis": bound_axis.name if bound_axis is not None else None}))
        return a

    def num(self, name, kinds=(FIN,), integer=False, numpy=True, grid=None):
        self._numgrid = grid
        v = z3.Int("num_" + name) if integer else z3.Real("num_" + name)
        if len(kinds) == 1:
            k = kinds[0]
        else:
            k = z3.Int("numk_" + name)
            CTX.facts.append(z3.Or(*[k == a for a in kinds]))
        self.decls.append(("num", name, {"kinds": list(kinds), "integer": integer, "grid": grid}))
        return SNum(k, v, is_int=integer, is_numpy=numpy)

    def boolean(self, name):
        self.decls.append(("bool", name, {}))
        return SBool(z3.Bool("bool_" + name))

    def assume(self, cond):
        """precondition (recorded as a fact); cond is an S-style boolean"""
        CTX.facts.append(bz(cond.z if isinstance(cond, SBool) else cond))

    def assume_sorted(self, arr, strict=True):
        """precondition: the one-dimensional array is (strictly) ascending"""
        sym.sorted_facts(arr, strict)

    def choice(self, name, options):
        """a finite concrete choice: enumerated by path forking"""
        n = len(options)
        self.decls.append(("choice", name, {"n": n}))
        c = z3.Int("choice_" + name)
        CTX.facts.append(z3.And(c >= 0, c < n))
        for j in range(n - 1):
            if CTX.engine.decide(c == j):
                return options[j]
        return options[n - 1]


class ConcGen(object):
    """concrete inputs taken from a dictionary of values (a replayed counterexample or an enumerated case)"""
    symbolic = False

    def __init__(self, values):
        self.values = values
        self.sizes = {}
        self.min_sizes = {}

    def axis(self, name, size=None, min_size=0):
        self.min_sizes[name] = max(min_size, self.min_sizes.get(name, 0))
        return name

    def array(self, name, axes=("n",), kinds=ALL_KINDS, dtype="float", min_size=0, bound_axis=None, grid=None, between=None):
        v = self.values["array:" + name]
        a = _np.array(v, dtype={"float": float, "int": int, "bool": bool}[dtype])
        if between is not None and a.size:
            fin = a[_np.isfinite(a)]
            if fin.size and (fin.min() < between[0] or fin.max() > between[1]):
                raise PreconditionFailed()
        for ax, n in zip(axes, a.shape):
            if ax in self.sizes and self.sizes[ax] != n:
                raise PreconditionFailed()
            self.sizes[ax] = n
            if n < self.min_sizes.get(ax, 0):
                raise PreconditionFailed()
        if bound_axis is not None:
            if bound_axis not in self.sizes or (a.size and (a.min() < 0 or a.max() >= self.sizes[bound_axis])):
                raise PreconditionFailed()
        return a

    def num(self, name, kinds=(FIN,), integer=False, numpy=True, grid=None):
        v = self.values["num:" + name]
        if v == "masked":
            return _np.ma.masked
        if integer:
            return _np.int64(v) if numpy else int(v)
        return _np.float64(v) if numpy else float(v)

    def boolean(self, name):
        return bool(self.values["bool:" + name])

    def assume(self, cond):
        if not bool(cond):
            raise PreconditionFailed()

    def assume_sorted(self, arr, strict=True):
        a = _np.asarray(arr, float)
        d = _np.diff(a)
        if (strict and not _np.all(d > 0)) or (not strict and not _np.all(d >= 0)):
            raise PreconditionFailed()

    def choice(self, name, options):
        return options[int(self.values["choice:" + name])]


class PreconditionFailed(Exception):
    pass


# ----------------------------------------------------------------------------------------------
# spec library, symbolic interpretation
# ----------------------------------------------------------------------------------------------
class SymSpec(object):
    symbolic = True
    nan = SNum(NAN)
    inf = SNum(PINF)
    np = shim_np.np_shim

    def __init__(self, eng):
        self.eng = eng
        self.idx_tuples = []

    # logic
    def z(self, b):
        if isinstance(b, SBool):
            return b.z
        if isinstance(b, (bool, _np.bool_)):
            return z3.BoolVal(bool(b))
        return b

    def and_(self, *bs): return SBool(bz(And(*[self.z(b) for b in bs])))
    def or_(self, *bs): return SBool(bz(Or(*[self.z(b) for b in bs])))
    def not_(self, b): return SBool(bz(Not(self.z(b))))
    def implies(self, a, b): return SBool(bz(Implies(self.z(a), self.z(b))))
    def iff(self, a, b): return SBool(bz(self.z(a)) == bz(self.z(b)))
    def ite(self, c, a, b):
        if isinstance(a, (SBool, bool)) and isinstance(b, (SBool, bool)):
            return SBool(Ite(self.z(c), self.z(a), self.z(b)))
        return sym.elem_ite(self.z(c), a, b)

    # numbers
    def lift(self, x): return SNum.lift(x)
    def isnan(self, x): return SBool(bz(SNum.lift(x).isnan_raw()))
    def ismasked(self, x): return SBool(bz(SNum.lift(x).ismasked()))
    def ismissing(self, x):
        x = SNum.lift(x)
        return SBool(bz(Or(x.isnan_raw(), x.ismasked())))
    def isinf(self, x): return SBool(bz(SNum.lift(x).isinf()))
    def isfin(self, x): return SBool(bz(SNum.lift(x).isfin()))
    def same(self, a, b):
        """same extended real (NaN equals NaN)"""
        if isinstance(a, (SBool, bool, _np.bool_)) and isinstance(b, (SBool, bool, _np.bool_)):
            return self.iff(a, b)
        return SBool(bz(sym.num_eq_term(_n(a), _n(b))))
    def sqrt(self, x): return sym.num_sqrt(SNum.lift(x))
    def log(self, x): return sym.num_log(SNum.lift(x), "ln")
    def log2(self, x): return sym.num_log(SNum.lift(x), "log2")
    def exp(self, x): return sym.num_exp(SNum.lift(x))
    def cbrt(self, x): return sym.num_cbrt_pow(SNum.lift(x))
    def abs(self, x): return abs(x)
    def to_num(self, b): return b.num() if isinstance(b, SBool) else SNum.lift(b)

    def ln_rules(self, x, y):
        """sound instances of ln(x*y) = ln x + ln y and ln(x/y) = ln x - ln y for positive finite x, y
        (the solver does not know them: ln is uninterpreted)"""
        x, y = SNum.lift(x), SNum.lift(y)
        lx, ly = sym.num_log(x), sym.num_log(y)
        lp, lq = sym.num_log(x * y), sym.num_log(x / y)
        pos = z3.And(bz(x.isfin()), bz(y.isfin()), x.rv() > 0, y.rv() > 0)
        CTX.facts.append(z3.Implies(pos, z3.And(lp.rv() == lx.rv() + ly.rv(), lq.rv() == lx.rv() - ly.rv())))

    # arrays
    def at(self, a, i):
        if isinstance(a, SArr):
            return a.at(tuple(_zidx(j) for j in i))
        raise TypeError("S.at on %r" % (a,))
    def masked_at(self, a, i): return SBool(bz(a.mask_at(i)))
    def selected_at(self, a, i): return SBool(bz(a.sel_at(i)))
    def is_masked_array(self, a): return isinstance(a, SArr) and a.mask is not None
    def length(self, a): return a.shape[0]

    def forall(self, arr, body):
        """body(i) for a generic index tuple of arr's domain (restricted to arr's selection)"""
        i = arr.generic("q")
        self.idx_tuples.append((arr.axes, i))
        b = body(i)
        return SBool(z3.Implies(sym.rng(i), bz(Implies(arr.sel_at(i), self.z(b)))))

    def forall_axes(self, axes, body):
        i = tuple(ax.fresh_index("q") for ax in axes)
        self.idx_tuples.append((tuple(axes), i))
        return SBool(z3.Implies(sym.rng(i), bz(self.z(body(i)))))

    def same_domain(self, a, b):
        """a and b select the same points of the same index domain"""
        if len(a.axes) != len(b.axes) or any(x is not y for x, y in zip(a.axes, b.axes)):
            return SBool(False)
        i = a.generic("q")
        self.idx_tuples.append((a.axes, i))
        return SBool(z3.Implies(sym.rng(i), bz(a.sel_at(i)) == bz(b.sel_at(i))))

    def filtered(self, arr, cond):
        """arr restricted to the positions where the boolean array cond holds"""
        return sym._filter(arr, cond)

    def sum(self, arr): return sym.arr_sum(arr)
    def mean(self, arr): return sym.arr_mean(arr)
    def count(self, arr): return sym.arr_count(arr)
    def count_true(self, boolarr): return boolarr.count_true()
    def fn(self, name, arr, params=()): return sym.fn_atom(name, arr, params)
    def fn2(self, name, a, b, params=()): return sym.fn_atom(name, (a, b), params)
    def sort(self, arr): return shim_np.np_shim.sort(arr)
    def log_arr(self, arr): return shim_np.np_shim.log(arr)

    def same_array(self, a, b):
        """a and b select the same points of the same index domain and hold the same values there"""
        if not (isinstance(a, SArr) and isinstance(b, SArr)):
            return SBool(False)
        if len(a.axes) != len(b.axes) or any(x is not y for x, y in zip(a.axes, b.axes)):
            return SBool(False)
        i = a.generic("q")
        self.idx_tuples.append((a.axes, i))
        sa, sb = bz(a.sel_at(i)), bz(b.sel_at(i))
        ea, eb = a.at(i), b.at(i)
        eq = self.z(self.same(ea, eb))
        return SBool(z3.Implies(sym.rng(i), z3.And(sa == sb, z3.Implies(sa, eq))))

    def list_len(self, lst):
        """length of a list built by a loop that ran at a generic index: the trip count"""
        loops = [l for l in CTX.loops]
        if not loops:
            return SNum(FIN, len(lst), is_int=True)
        if len(loops) != 1:
            raise Unsupported("list built by more than one symbolic loop")
        k, lo, hi = loops[0]
        return SNum(FIN, Ite(bz(hi > lo), hi - lo, z3.IntVal(0)), is_int=True)

    def loop_items(self, lst):
        """(index, element) pairs of a list built by a map loop: symbolically the one generic element"""
        loops = [l for l in CTX.loops if l[0] is not None]
        if not loops:
            return []
        if len(loops) != 1 or len(lst) != 1:
            raise Unsupported("list built by more than one symbolic loop")
        k = loops[0][0]
        return [(SNum(FIN, k, is_int=True, is_numpy=False), lst[0])]

    def count_where_axes(self, axes, pred):
        return sym.count_atom(tuple(axes), lambda idx: self.z(pred(idx)))

    def length_along(self, arr, d):
        return arr.axes[d].size

    def nan_to_zero(self, x):
        return shim_np.np_shim.nan_to_num(SNum.lift(x))

    def sum_prefix(self, arr, r, term):
        """Sigma_{j <= r} term(j) over the positions of the one-dimensional array arr"""
        zr = _zidx(r)

        def t(idx):
            e = SNum.lift(term(idx[0]))
            return Ite(bz(And(idx[0] <= zr, e.isfin())), e.rv(), z3.RealVal(0))
        return SNum(FIN, sym.sum_atom(arr.axes, t))

    def ppf(self, q): return shim_np.scipy_shim.stats.norm.ppf(SNum.lift(q))
    def floordiv(self, a, b): return sym.num_floordiv(SNum.lift(a), SNum.lift(b))
    def is_integer(self, x): return SBool(z3.IsInt(SNum.lift(x).rv()))
    def note_index(self, arr, k): arr.axes[0].note_index(_zidx(k))

    def loop_indices(self, arr):
        """the generic index of the (single) symbolic loop that ran over arr's positions"""
        return [SNum(FIN, l[0], is_int=True, is_numpy=False) for l in CTX.loops if l[0] is not None]

    def two_generic(self, arr, dim):
        """one generic pair of indices for the two dimensions of a 3-d array other than dim"""
        axes = [ax for d, ax in enumerate(arr.axes) if d != dim]
        i = tuple(ax.fresh_index("q") for ax in axes)
        self.idx_tuples.append((tuple(axes), i))
        return [(SNum(FIN, i[0], is_int=True, is_numpy=False), SNum(FIN, i[1], is_int=True, is_numpy=False))]

    def series_along(self, arr, dim, a, b):
        """the one-dimensional series arr[a, :, b] (dim = 1) or arr[:, a, b] (dim = 0)"""
        g = arr._snapshot()
        za, zb = _zidx(a), _zidx(b)
        if dim == 1:
            return SArr((arr.axes[1],), lambda j: g((za, j[0], zb)), arr.dtype)
        return SArr((arr.axes[0],), lambda j: g((j[0], za, zb)), arr.dtype)

    def window(self, series, coords, pred):
        """the elements of series whose coordinate satisfies pred"""
        cg = coords._snapshot()
        return SArr(series.axes, series._snapshot(), series.dtype, lambda j: self.z(pred(cg(j))), None)

    def count_where(self, arr, pred):
        """number of (selected) index points of arr's domain where pred(i) holds"""
        return sym.count_atom(arr.axes, lambda idx: And(arr.sel_at(idx), self.z(pred(idx))))

    def sum_where(self, arr, term):
        """Sigma over the selected index points of arr of term(i) (an SNum that must be finite there)"""
        def t(idx):
            e = SNum.lift(term(idx))
            return Ite(bz(And(arr.sel_at(idx), e.isfin())), e.rv(), z3.RealVal(0))
        return SNum(FIN, sym.sum_atom(arr.axes, t))

    def lin_zero(self, terms):
        """R1 + R2: Sigma_k coef_k * atom_k == 0, proved from the pointwise identity of the summands"""
        if CTX.unroll:
            tot = z3.RealVal(0)
            for coef, x in terms:
                tot = tot + coef * SNum.lift(x).rv()
            return SBool(tot == 0)
        ats, const = [], 0
        for coef, x in terms:
            v = z3.simplify(SNum.lift(x).v)
            if z3.is_int_value(v) or z3.is_rational_value(v):
                const = const + coef * sym_value(v)
                continue
            at = None
            for cand in CTX.atoms:
                if cand.kind == "sum" and cand.const.get_id() == v.get_id():
                    at = cand
            if at is None and z3.is_app(v) and v.decl().kind() == z3.Z3_OP_TO_REAL:
                for cand in CTX.atoms:
                    if cand.kind == "sum" and cand.const.get_id() == v.arg(0).get_id():
                        at = cand
            if at is None:
                # the extent of a one-dimensional domain is the sum of 1 over it
                core = v.arg(0) if z3.is_app(v) and v.decl().kind() == z3.Z3_OP_TO_REAL else v
                for ax in CTX.all_axes:
                    if z3.is_expr(ax.size.v) and ax.size.v.get_id() == core.get_id():
                        at = _SizeAtom(ax)
                        break
            if at is None:
                raise Unsupported("lin_zero: %s is not a sum atom" % v)
            ats.append((coef, at))
        if not ats:
            return SBool(const == 0)
        real = [a for _, a in ats if not isinstance(a, _SizeAtom)]
        if not real:
            raise Unsupported("lin_zero over extents only")
        axes = real[0].axes
        for _, a in ats:
            if isinstance(a, _SizeAtom):
                if len(axes) != 1 or axes[0] is not a.ax:
                    raise Unsupported("lin_zero: extent of another domain")
                a.axes = axes
        if any(len(a.axes) != len(axes) or any(x is not y for x, y in zip(a.axes, axes)) for _, a in ats):
            raise Unsupported("lin_zero over different domains")
        idx = tuple(ax.fresh_index("q") for ax in axes)
        tot = z3.RealVal(0)
        for coef, at in ats:
            t = sym.toz(at.fn(idx), "real")
            if z3.is_int(t):
                t = z3.ToReal(t)
            tot = tot + coef * t
        return SBool(z3.And(z3.Implies(sym.rng(idx), tot == 0), z3.BoolVal(const == 0)))


class _SizeAtom(object):
    """Sigma_i 1 over a one-dimensional domain (its extent), for lin_zero"""
    def __init__(self, ax):
        self.ax = ax
        self.axes = (ax,)

    def fn(self, idx):
        return z3.RealVal(1)


def sym_value(v):
    if z3.is_int_value(v):
        return v.as_long()
    f = v.as_fraction()
    return float(f.numerator) / float(f.denominator)


def _zidx(j):
    if isinstance(j, SNum):
        return sym._toint(j.v)
    if isinstance(j, int):
        return z3.IntVal(j)
    return j


def _n(x):
    if isinstance(x, SBool):
        return x.num()
    return SNum.lift(x)


# ----------------------------------------------------------------------------------------------
# spec library, concrete interpretation
# ----------------------------------------------------------------------------------------------
RTOL = 1e-9


class ConcSpec(object):
    symbolic = False
    nan = float("nan")
    inf = float("inf")
    np = _np

    def and_(self, *bs): return all(bool(b) for b in bs)
    def or_(self, *bs): return any(bool(b) for b in bs)
    def not_(self, b): return not bool(b)
    def implies(self, a, b): return (not bool(a)) or bool(b)
    def iff(self, a, b): return bool(a) == bool(b)
    def ite(self, c, a, b): return a if bool(c) else b

    def lift(self, x): return x
    def isnan(self, x): return (x is not _np.ma.masked) and bool(_np.isnan(x))
    def ismasked(self, x): return x is _np.ma.masked
    def ismissing(self, x): return x is _np.ma.masked or bool(_np.isnan(x))
    def isinf(self, x): return (x is not _np.ma.masked) and bool(_np.isinf(x))
    def isfin(self, x): return (x is not _np.ma.masked) and bool(_np.isfinite(x))

    def same(self, a, b):
        if a is _np.ma.masked or b is _np.ma.masked:
            return a is b
        if isinstance(a, (bool, _np.bool_)) and isinstance(b, (bool, _np.bool_)):
            return bool(a) == bool(b)
        # single-precision intermediates (the code stores some arrays as float32): rounding is outside A1
        tol = 1e-6 if (isinstance(a, _np.float32) or isinstance(b, _np.float32)) else RTOL
        a, b = float(a), float(b)
        if math.isnan(a) or math.isnan(b):
            return math.isnan(a) and math.isnan(b)
        if math.isinf(a) or math.isinf(b):
            return a == b
        return abs(a - b) <= tol * max(1.0, abs(a), abs(b))

    def sqrt(self, x):
        with _np.errstate(all="ignore"):
            return _np.sqrt(_np.float64(x))
    def log(self, x):
        with _np.errstate(all="ignore"):
            return _np.log(_np.float64(x))
    def log2(self, x):
        with _np.errstate(all="ignore"):
            return _np.log2(_np.float64(x))
    def exp(self, x):
        with _np.errstate(all="ignore"):
            return _np.exp(_np.float64(x))
    def cbrt(self, x):
        with _np.errstate(all="ignore"):
            return _np.float64(x) ** (1.0 / 3)
    def abs(self, x): return abs(x)
    def to_num(self, b): return _np.float64(b)
    def ln_rules(self, x, y): return None

    def at(self, a, i):
        if isinstance(a, _np.ma.MaskedArray):
            return a.data[tuple(i)]
        return a[tuple(i)]
    def masked_at(self, a, i):
        return bool(_np.ma.getmaskarray(a)[tuple(i)])
    def selected_at(self, a, i): return True
    def is_masked_array(self, a): return isinstance(a, _np.ma.MaskedArray)
    def length(self, a): return len(a)

    def forall(self, arr, body):
        a = _np.asarray(arr)
        return all(bool(body(i)) for i in _np.ndindex(*a.shape))

    def forall_axes(self, axes, body):
        raise NotImplementedError("forall_axes in concrete mode needs sizes")

    def same_domain(self, a, b):
        return _np.shape(a) == _np.shape(b)

    def filtered(self, arr, cond): return _np.asarray(arr)[_np.asarray(cond, bool)]
    def sum(self, arr):
        with _np.errstate(all="ignore"):
            return _np.sum(arr)
    def mean(self, arr):
        with _np.errstate(all="ignore"):
            import warnings
            with warnings.catch_warnings():
                warnings.simplefilter("ignore")
                return _np.mean(arr)
    def count(self, arr): return _np.size(arr)
    def count_true(self, boolarr): return int(_np.sum(_np.asarray(boolarr, bool)))
    def fn(self, name, arr, params=()):
        f = CONCRETE_FUNCTIONALS[name]
        return f(arr, *params)

    def list_len(self, lst): return len(lst)
    def loop_items(self, lst): return list(enumerate(lst))
    def sort(self, arr): return _np.sort(arr)
    def fn2(self, name, a, b, params=()): return CONCRETE_FUNCTIONALS2[name](a, b)

    def log_arr(self, arr):
        with _np.errstate(all="ignore"):
            return _np.log(arr)

    def same_array(self, a, b):
        a, b = _np.asarray(a), _np.asarray(b)
        if a.shape != b.shape:
            return False
        return all(self.same(x, y) for x, y in zip(a.flatten(), b.flatten()))

    def count_where(self, arr, pred):
        a = _np.asarray(arr)
        return sum(1 for i in _np.ndindex(*a.shape) if bool(pred(i)))

    def length_along(self, arr, d): return _np.shape(arr)[d]
    def nan_to_zero(self, x): return float(_np.nan_to_num(float(x)))
    def sum_prefix(self, arr, r, term): return float(sum(float(term(j)) for j in range(int(r) + 1)))
    def ppf(self, q):
        import scipy.stats
        return scipy.stats.norm.ppf(q)
    def floordiv(self, a, b): return a // b
    def is_integer(self, x): return float(x).is_integer()
    def note_index(self, arr, k): return None
    def loop_indices(self, arr): return list(range(len(arr)))

    def two_generic(self, arr, dim):
        sh = [n for d, n in enumerate(_np.shape(arr)) if d != dim]
        return [(a, b) for a in range(sh[0]) for b in range(sh[1])]

    def series_along(self, arr, dim, a, b):
        return _np.asarray(arr)[a, :, b] if dim == 1 else _np.asarray(arr)[:, a, b]

    def window(self, series, coords, pred):
        keep = _np.array([bool(pred(c)) for c in _np.asarray(coords, float)], bool)
        return _np.asarray(series)[keep]

    def sum_where(self, arr, term):
        a = _np.asarray(arr)
        return float(sum(float(term(i)) for i in _np.ndindex(*a.shape)))

    def lin_zero(self, terms):
        tot = sum(coef * float(x) for coef, x in terms)
        return abs(tot) <= 1e-9 * max(1.0, max(abs(float(x)) for _, x in terms))


def _spearman(a, b):
    import scipy.stats
    import warnings
    with warnings.catch_warnings():
        warnings.simplefilter("ignore")
        return scipy.stats.spearmanr(a, b)[0]


def _kendall(a, b):
    import scipy.stats
    import warnings
    with warnings.catch_warnings():
        warnings.simplefilter("ignore")
        return scipy.stats.kendalltau(a, b)[0]


CONCRETE_FUNCTIONALS2 = {"spearmanr": _spearman, "kendalltau": _kendall}

CONCRETE_FUNCTIONALS = {
    "median": lambda a: _np.median(a),
    "min": lambda a: _np.min(a),
    "max": lambda a: _np.max(a),
    "percentile": lambda a, q: _np.percentile(a, q),
    "quantile": lambda a, q, method="linear": _np.quantile(a, q, method=method),
}


# ----------------------------------------------------------------------------------------------
# running one obligation
# ----------------------------------------------------------------------------------------------
class GoalResult(object):
    def __init__(self, label, verdict, seconds, backend="z3", path=None, model=None, note="", opaque=False):
        self.label, self.verdict, self.seconds, self.backend = label, verdict, seconds, backend
        self.path, self.model, self.note = path, model, note
        self.opaque = opaque      # the refuted formula mentions reduction atoms / uninterpreted functions: its model is
                                  # a failure to prove, not a concrete counterexample


def mentions_opaque(term):
    seen = set()
    stack = [term]
    while stack:
        t = stack.pop()
        if t.get_id() in seen:
            continue
        seen.add(t.get_id())
        if z3.is_app(t):
            n = t.decl().name()
            if n.startswith(("sum!", "fk_", "fv_", "afn_", "uf_")):
                return True
            stack.extend(t.children())
    return False


class ObResult(object):
    def __init__(self, name):
        self.name = name
        self.status = None          # discharged | refuted | undecided | error
        self.goals = []             # GoalResult
        self.paths = 0
        self.seconds = 0.0
        self.solver_seconds = 0.0
        self.solver_calls = 0
        self.assumed = set()
        self.note = ""
        self.witness = None         # concrete inputs (dict) of a refutation
        self.replay = None          # dict: result of replaying the witness on the real code
        self.backends = {}
        self.canary = None
        self.decls = []
        self.cases = None

    def to_json(self):
        return {
            "name": self.name, "status": self.status, "paths": self.paths, "seconds": round(self.seconds, 3),
            "solver_seconds": round(self.solver_seconds, 3), "solver_calls": self.solver_calls,
            "goals": [{"label": g.label, "verdict": g.verdict, "seconds": round(g.seconds, 4), "backend": g.backend,
                       "path": g.path, "note": g.note, "opaque": getattr(g, "opaque", False)} for g in self.goals],
            "assumed": sorted(self.assumed), "note": self.note, "witness": self.witness, "replay": self.replay,
            "canary": self.canary, "cases": self.cases,
        }


def _patch_stack(o, inp):
    import contextlib
    st = contextlib.ExitStack()
    for m in o.modules:
        names = {"np": shim_np.np_shim}
        if "scipy" in m.__dict__:
            names["scipy"] = shim_np.scipy_shim
        if o.shadows:
            names.update(shim_np.BUILTIN_SHADOWS)
        st.enter_context(engine.patched(m, **names))
    import verif.util
    st.enter_context(engine.patched(verif.util, error=_error_stub, warning=_warning_stub))
    if o.patch is not None:
        st.enter_context(o.patch(inp))
    return st


def _error_stub(message):
    """contract of verif.util.error: prints and exits with status 1 -> ends the path (ensures False)"""
    raise Abort(str(message))


def _warning_stub(message):
    return None


def _raise_confirmed(o, E, G, out):
    """does the real code (no shims) raise the same kind of exception on a concrete input of this path?"""
    for attempt in range(3):
        try:
            vals = concretize(E, G, z3.BoolVal(False), max_size=3 + attempt)
            rep = replay(o, vals)
        except Exception:
            return False
        if rep.get("outcome") == "raise" and str(rep.get("observed", "")).startswith(type(out.exc).__name__):
            return True
        if rep.get("outcome") != "precondition-not-met":
            return False
    return False


def second_solver(smt2_text, timeout_s=30):
    """try cvc5 then the Debian z3 4.8.12 on the SMT-LIB text -> 'unsat' | 'sat' | 'unknown'"""
    import subprocess
    import tempfile
    fd, path = tempfile.mkstemp(suffix=".smt2", dir=os.environ.get("PYVC_TMP", "/var/tmp"))
    os.write(fd, smt2_text.encode())
    os.close(fd)
    try:
        for cmd, name in ((["/usr/bin/cvc5", "--tlimit=%d" % (timeout_s * 1000), path], "cvc5"),
                          (["/usr/bin/z3", "-T:%d" % timeout_s, path], "z3-4.8.12")):
            try:
                p = subprocess.run(cmd, capture_output=True, text=True, timeout=timeout_s + 5)
            except Exception:
                continue
            out = p.stdout.strip().split("\n")[0] if p.stdout.strip() else ""
            if out in ("unsat", "sat"):
                return out, name
        return "unknown", None
    finally:
        os.unlink(path)


GRID_NUM = [0.0, 1.0, 2.0, 0.5, 3.0, -1.0]
GRID_ARR = [0.0, 1.0, 2.0, -1.0, 1.0 / 3]      # 1/3: not representable in single precision (a float32 detour is visible)


def enumerate_witness(o, decls, seed=0, budget=6000, sizes=(1, 2, 3), stop_at_first=True, stats=None, vary_axes=False):
    """concrete search for a failing input of the same contract on the REAL code: small grids of values for
    every declared input (array extents 1..3), exhaustive while the grid is small, seeded-random beyond"""
    import itertools
    import random
    rnd = random.Random(seed)
    special = {NAN: float("nan"), PINF: float("inf"), NINF: float("-inf"), MASKED: "masked"}
    tried = 0
    free_axes = [name for kind, name, info in decls if kind == "axis" and not isinstance(info["size"], int)]
    if vary_axes and len(free_axes) > 1:
        combos = list(itertools.product(sizes, repeat=len(free_axes)))
        if len(combos) > 40:
            combos = [tuple(n for _ in free_axes) for n in sizes] + rnd.sample(combos, 36)
    else:
        combos = [tuple(n for _ in free_axes) for n in sizes]
    per = max(1, budget // max(1, len(combos)))
    for combo in combos:
        names, domains = [], []
        n = max(combo) if combo else 1
        csize = dict(zip(free_axes, combo))
        sizes = {}
        for kind, name, info in decls:
            if kind == "axis":
                sizes[name] = info["size"] if isinstance(info["size"], int) else csize[name]
        for kind, name, info in decls:
            if kind == "num":
                vals = [v for v in GRID_NUM if FIN in info["kinds"]] + [special[k] for k in info["kinds"] if k != FIN]
                if info.get("grid"):
                    vals = list(info["grid"]) + [special[k] for k in info["kinds"] if k != FIN]
                elif info["integer"]:
                    vals = [int(v) for v in vals if isinstance(v, float) and v == int(v) and v == v and abs(v) != float("inf")]
                names.append("num:" + name); domains.append(("scalar", vals))
            elif kind == "bool":
                names.append("bool:" + name); domains.append(("scalar", [False, True]))
            elif kind == "choice":
                names.append("choice:" + name); domains.append(("scalar", list(range(info["n"]))))
            elif kind == "array":
                shape = [sizes[a] for a in info["axes"]]
                if info["dtype"] == "bool":
                    vals = [False, True]
                else:
                    vals = [v for v in GRID_ARR if FIN in info["kinds"]] + [special[k] for k in info["kinds"] if k not in (FIN, MASKED)]
                    if info.get("grid"):
                        vals = list(info["grid"]) + [special[k] for k in info["kinds"] if k not in (FIN, MASKED)]
                    elif info["dtype"] == "int":
                        vals = list(range(sizes.get(info.get("bound_axis"), n))) if info.get("bound_axis") else [0, 1, 2]
                names.append("array:" + name); domains.append(("array", vals, shape))
        total = 1
        for d in domains:
            cnt = len(d[1]) if d[0] == "scalar" else len(d[1]) ** max(1, int(_np.prod(d[2])))
            total *= max(1, cnt)

        def build(choice_fn):
            vals = {}
            for nm, d in zip(names, domains):
                if d[0] == "scalar" and nm.startswith("bool:"):
                    vals[nm] = rnd.random() < 0.3          # option flags: mostly off, so that selections stay non-empty
                elif d[0] == "scalar":
                    vals[nm] = choice_fn(d[1])
                else:
                    k = int(_np.prod(d[2]))
                    flat = [choice_fn(d[1]) for _ in range(k)]
                    vals[nm] = _np.array(flat, dtype=object).reshape(d[2]).tolist()
            return vals
        if stats is not None:
            stats.setdefault("exhaustive", True)
            if total > per:
                stats["exhaustive"] = False
        if total <= per:
            scal = []
            for d in domains:
                if d[0] == "scalar":
                    scal.append(d[1])
                else:
                    k = int(_np.prod(d[2]))
                    scal.append(list(itertools.product(d[1], repeat=k)))
            cands = []
            for combo in itertools.product(*scal):
                vals = {}
                for nm, d, c in zip(names, domains, combo):
                    vals[nm] = c if d[0] == "scalar" else _np.array(list(c), dtype=object).reshape(d[2]).tolist()
                cands.append(vals)
        else:
            cands = [build(lambda xs: rnd.choice(xs)) for _ in range(per)]
        # structured candidates first: constant arrays, arrays that differ by a constant offset, a spread on a large offset (where an
        # algebraically equivalent rewrite cancels in floating point).  All values are exactly representable and chosen so that the
        # textbook formulas are exact in double precision: rounding noise of correct code is not what this search is after (A1).
        structured = []
        float_arrays = [nm for nm, d in zip(names, domains) if d[0] == "array" and all(isinstance(v, float) for v in d[1]) and 0.0 in d[1] and 1.0 in d[1] and 2.0 in d[1]]
        family = [("const", 0.0), ("const", 1.0), ("const", 1e8), ("alt", 0.0), ("alt", 1e8)]
        if float_arrays:
            if len(float_arrays) <= 2:
                picks = list(itertools.product(family, repeat=len(float_arrays)))
            else:
                picks = [tuple(family[(a + b) % len(family)] for b in range(len(float_arrays))) for a in range(len(family))]
            for pick in picks:
                vals = {}
                for nm, d in zip(names, domains):
                    if d[0] == "scalar":
                        vals[nm] = (rnd.random() < 0.3) if nm.startswith("bool:") else d[1][0]
                    elif nm in float_arrays:
                        kind, c = pick[float_arrays.index(nm)]
                        k = int(_np.prod(d[2]))
                        flat = [c + (0.0 if kind == "const" else (0.5 if i % 2 else -0.5)) for i in range(k)]
                        vals[nm] = _np.array(flat, dtype=object).reshape(d[2]).tolist()
                    else:
                        k = int(_np.prod(d[2]))
                        vals[nm] = _np.array([d[1][0]] * k, dtype=object).reshape(d[2]).tolist()
                structured.append(vals)
        for vals in structured + cands:
            tried += 1
            try:
                rep = replay(o, vals)
            except Exception:
                continue
            if stats is not None:
                stats["cases"] = tried
                if rep.get("outcome") != "precondition-not-met":
                    stats["evaluated"] = stats.get("evaluated", 0) + 1
                    stats.setdefault("outcomes", {})
                    stats["outcomes"][rep.get("outcome")] = stats["outcomes"].get(rep.get("outcome"), 0) + 1
            if rep.get("failed"):
                return vals, rep, tried
    if stats is not None:
        stats["cases"] = tried
    return None


def declared_inputs(o):
    """the input declarations of an obligation (run its setup once on a recording symbolic generator)"""
    CTX.reset_run()
    E = engine.Engine()
    CTX.engine = E
    E._new_solver()
    E._prefix, E._pos, E._work = [], 0, []
    G = SymGen()
    o.setup(G)
    return list(G.decls)


def bounded_obligation(name, props, setup, call, post, bound, sizes=(1, 2, 3), budget=60000, vary_axes=False, thorough_budget=None, **kw):
    """a bounded stand-in: the same contract evaluated concretely on the real function over an enumeration
    with a stated bound.  Labelled bounded; never counted as discharged (DESIGN 2.10)."""
    o = Obligation(name, props, setup, call, post, bounded=bound, kind="BOUNDED", **kw)

    def runner(o, timeout_ms=0, second=False):
        t0 = time.time()
        res = ObResult(o.name)
        stats = {}
        try:
            decls = declared_inputs(o)
            b = budget
            if thorough_budget and os.environ.get("PYVC_TIER") == "thorough":
                b = thorough_budget
            w = enumerate_witness(o, decls, seed=int(os.environ.get("VERIF_SEED", "0")), budget=b, sizes=sizes, stats=stats, vary_axes=vary_axes)
        except Exception:
            res.status = "error"
            res.note = traceback.format_exc()
            return res
        res.paths = stats.get("evaluated", 0)
        res.cases = stats.get("evaluated", 0)
        if w is None:
            res.status = "discharged" if res.cases > 0 else "error"
            res.goals.append(GoalResult("bounded-enumeration", "unsat", time.time() - t0, backend="concrete-enumeration", path=0,
                                        note="%d cases, exhaustive=%s, outcomes=%s" % (res.cases, stats.get("exhaustive"), stats.get("outcomes"))))
        else:
            res.status = "refuted"
            res.witness, res.replay = w[0], w[1]
            for lab in w[1]["failed"]:
                res.goals.append(GoalResult(lab, "sat", time.time() - t0, backend="concrete-enumeration", path=0))
        res.seconds = time.time() - t0
        return res
    o.runner = runner
    o.no_unroll = True
    return register(o)


def find_witness(o, timeout_ms=20000, sizes=(1, 2, 3)):
    """a refutation whose model does not replay (sums are opaque atoms there): search for a genuine failing
    input with concrete array extents 1, 2, 3 and the sums written out; returns (witness, replay) or None"""
    for n in sizes:
        CTX.unroll = n
        try:
            r = run_obligation(o, timeout_ms=timeout_ms, max_paths=2000)
        except Exception:
            r = None
        finally:
            CTX.unroll = 0
        if r is not None and r.status == "refuted" and r.witness is not None:
            try:
                rep = replay(o, r.witness)
            except Exception:
                continue
            if rep.get("failed"):
                return r.witness, rep
    return None


def run_obligation(o, timeout_ms=20000, max_paths=4096, second=False):
    """explore all paths of o.call, prove every goal of o.post on every path"""
    res = ObResult(o.name)
    t0 = time.time()
    E = engine.Engine(timeout_ms=timeout_ms, max_paths=max_paths)
    E.initial_prefix = list(getattr(o, "prefix", None) or [])
    undecided, refuted = [], []
    holder = {}

    def thunk():
        G = SymGen()
        holder["G"] = G
        inp = o.setup(G)
        holder["inp"] = inp
        with _patch_stack(o, inp):
            return o.call(inp)

    try:
        for out in E.paths(thunk):
            res.paths += 1
            pid = res.paths
            G, inp = holder["G"], holder.get("inp")
            S = SymSpec(E)
            goals = None
            try:
                if out.kind == "return":
                    goals = o.post(S, inp, out.value)
                elif out.kind == "raise" and o.raises is None and not _raise_confirmed(o, E, G, out):
                    # an exception that the real code does not raise on the corresponding concrete input comes from a
                    # limitation of the shim (signature, unsupported idiom): undecided, never a violation
                    g = GoalResult("unsupported", "unknown", 0, path=pid,
                                   note="exception under shadow execution not reproduced on the real code: %s: %s" % (type(out.exc).__name__, str(out.exc)[:200]))
                    undecided.append(g)
                    res.goals.append(g)
                    continue
                elif out.kind in ("abort", "raise"):
                    if o.raises is not None:
                        goals = o.raises(S, inp, out)
                    elif out.kind == "abort" and o.allow_abort:
                        goals = []
                    else:
                        goals = [("no-%s:%s" % (out.kind, type(out.exc).__name__ if out.kind == "raise" else "error-exit"), SBool(False))]
                        res.note += " path %d ends in %s: %s;" % (pid, out.kind, str(out.exc)[:200])
                else:
                    undecided.append(GoalResult("unsupported", "unknown", 0, path=pid, note=str(out.exc)[:300]))
                    res.goals.append(undecided[-1])
                    continue
            except Unsupported as e:
                g = GoalResult("unsupported-in-contract", "unknown", 0, path=pid, note=str(e)[:300])
                undecided.append(g)
                res.goals.append(g)
                continue
            except (KeyError, IndexError, AttributeError, TypeError) as e:
                # the contract reads what the code recorded / returned; when the code under study no longer has the expected
                # shape (a stub never called, another return type) the contract cannot be evaluated symbolically on this path:
                # undecided here, decided by the concrete replay of the same contract on the real code
                g = GoalResult("contract-not-evaluable-on-this-path", "unknown", 0, path=pid, note="%s: %s" % (type(e).__name__, str(e)[:250]))
                undecided.append(g)
                res.goals.append(g)
                continue
            for label, goal in goals:
                gz = goal.z if isinstance(goal, SBool) else bz(goal)
                verdict, model, dt = E.prove(gz, S.idx_tuples)
                backend = "z3"
                if verdict == "unknown":
                    v2, b2 = second_solver(E.smt2(gz))
                    if v2 in ("unsat", "sat"):
                        verdict, backend = v2, b2
                elif second and verdict == "unsat":
                    v2, b2 = second_solver(E.smt2(gz))
                    backend = "z3+" + (b2 or "none:" + v2)
                    if v2 == "sat":
                        verdict = "unknown"
                g = GoalResult(label, verdict, dt, backend, path=pid, opaque=(verdict == "sat" and mentions_opaque(gz)))
                res.goals.append(g)
                res.backends[backend] = res.backends.get(backend, 0) + 1
                if verdict == "sat":
                    refuted.append(g)
                    if res.witness is None and model is not None:
                        try:
                            res.witness = concretize(E, G, gz)
                            res.witness["_goal"] = label
                        except Exception as e:       # concretisation is best effort
                            res.note += " concretize failed: %r;" % (e,)
                elif verdict == "unknown":
                    undecided.append(g)
            # canary: a deliberately wrong contract must be refuted on at least one path
            if o.canary is not None and out.kind == "return" and res.canary != "refuted":
                S2 = SymSpec(E)
                try:
                    cg = o.canary(S2, inp, out.value)
                    allz = And(*[(g.z if isinstance(g, SBool) else bz(g)) for _, g in cg])
                    v, _, _ = E.prove(bz(allz), S2.idx_tuples)
                    res.canary = "refuted" if v == "sat" else (res.canary or "survived")
                except Unsupported:
                    pass
            res.assumed |= CTX.assumed
    except engine.Budget as e:
        res.status = "undecided"
        res.note += " budget: %s" % e
    except Exception:
        res.status = "error"
        res.note += traceback.format_exc()
    res.decls = list(holder["G"].decls) if "G" in holder else []
    res.solver_calls = E.solver_calls
    res.solver_seconds = E.solver_time
    res.seconds = time.time() - t0
    if res.status is None:
        if refuted:
            res.status = "refuted"
        elif undecided:
            res.status = "undecided"
        elif res.paths == 0 and getattr(o, "allow_vacuous", False):
            res.status = "discharged"
            res.note += " no feasible path under this forced prefix (its sibling obligations cover the paths)"
        elif res.paths == 0 or not res.goals:
            res.status = "error"
            res.note += " vacuous: no feasible path reached the contract (COVER failed)"
        elif o.canary is not None and res.canary != "refuted":
            res.status = "error"
            res.note += " canary contract was not refuted"
        else:
            res.status = "discharged"
    return res


# ----------------------------------------------------------------------------------------------
# counterexamples -> concrete inputs
# ----------------------------------------------------------------------------------------------
def _model_num(model, k, v, integer=False):
    kk = k if isinstance(k, int) else _as_int(model.eval(k, model_completion=True))
    if kk == NAN:
        return float("nan")
    if kk == PINF:
        return float("inf")
    if kk == NINF:
        return float("-inf")
    if kk == MASKED:
        return "masked"
    val = model.eval(v, model_completion=True)
    return _as_float(val) if not integer else _as_int(val)


def _as_int(t):
    try:
        return t.as_long()
    except Exception:
        return int(_as_float(t))


def _as_float(t):
    if z3.is_int_value(t):
        return float(t.as_long())
    if z3.is_rational_value(t):
        f = t.as_fraction()
        return float(f.numerator) / float(f.denominator)
    if z3.is_algebraic_value(t):
        return float(t.approx(20).as_fraction())
    raise ValueError("no numeric value for %s" % t)


def concretize(E, G, goal, max_size=6):
    """small concrete inputs from a counter-model: re-solve with every axis size <= max_size"""
    extra = [z3.Not(goal)]
    for kind, name, info in G.decls:
        if kind == "axis" and info["size"] is None:
            extra.append(z3.Int("n_" + name) <= max_size)
    r = E.check(*extra)
    if r != "sat":
        r = E.check(z3.Not(goal))
        if r != "sat":
            raise ValueError("model vanished")
    m = E.last_model
    vals = {}
    sizes = {}
    for kind, name, info in G.decls:
        if kind == "axis":
            sizes[name] = info["size"] if info["size"] is not None else _as_int(m.eval(z3.Int("n_" + name), model_completion=True))
    for kind, name, info in G.decls:
        if kind == "num":
            integer = info["integer"]
            v = z3.Int("num_" + name) if integer else z3.Real("num_" + name)
            k = info["kinds"][0] if len(info["kinds"]) == 1 else z3.Int("numk_" + name)
            vals["num:" + name] = _model_num(m, k, v, integer)
        elif kind == "bool":
            vals["bool:" + name] = bool(z3.is_true(m.eval(z3.Bool("bool_" + name), model_completion=True)))
        elif kind == "choice":
            vals["choice:" + name] = _as_int(m.eval(z3.Int("choice_" + name), model_completion=True))
        elif kind == "array":
            shape = [min(sizes[a], 50) for a in info["axes"]]
            sorts = [z3.IntSort()] * len(shape)
            dtype = info["dtype"]
            if dtype == "bool":
                fb = z3.Function("arr_%s_b" % name, *(sorts + [z3.BoolSort()]))
                arr = _np.zeros(shape, bool)
                for idx in _np.ndindex(*shape):
                    arr[idx] = z3.is_true(m.eval(fb(*[z3.IntVal(i) for i in idx]), model_completion=True))
                vals["array:" + name] = arr.tolist()
                continue
            fv = z3.Function("arr_%s_v" % name, *(sorts + [z3.RealSort() if dtype == "float" else z3.IntSort()]))
            fk = z3.Function("arr_%s_k" % name, *(sorts + [z3.IntSort()]))
            kinds = info["kinds"]
            arr = _np.zeros(shape, float)
            for idx in _np.ndindex(*shape):
                ii = [z3.IntVal(i) for i in idx]
                if len(kinds) == 1 or (NAN not in kinds and PINF not in kinds and NINF not in kinds):
                    k = FIN
                else:
                    k = _as_int(m.eval(fk(*ii), model_completion=True))
                    if k not in kinds:
                        k = kinds[0]
                x = _model_num(m, k, fv(*ii))
                arr[idx] = x
            vals["array:" + name] = arr.tolist() if dtype == "float" else arr.astype(int).tolist()
    return vals


def replay(o, values):
    """run the REAL code (no shims) on concrete inputs and evaluate the contract concretely.
    -> dict(outcome=..., failed=[labels], observed=repr)"""
    import warnings
    G = ConcGen(values)
    S = ConcSpec()
    info = {"failed": [], "outcome": None, "observed": None}
    try:
        inp = o.setup(G)
    except PreconditionFailed:
        info["outcome"] = "precondition-not-met"
        return info
    import contextlib
    st = contextlib.ExitStack()
    if o.patch is not None and getattr(o, "patch_concrete", True):
        st.enter_context(o.patch(inp))
    import contextlib as _cl
    import io as _io
    with st, warnings.catch_warnings():
        warnings.simplefilter("ignore")
        try:
            with _np.errstate(all="ignore"), _cl.redirect_stdout(_io.StringIO()):
                out = o.call(inp)
            info["outcome"] = "return"
            info["observed"] = _short(out)
            goals = o.post(S, inp, out)
        except SystemExit as e:
            info["outcome"] = "abort"
            info["observed"] = "SystemExit(%r)" % (e.code,)
            oc = engine.Outcome("abort", exc=Abort("exit"))
            goals = o.raises(S, inp, oc) if o.raises is not None else ([] if o.allow_abort else [("no-abort", False)])
        except Exception as e:
            info["outcome"] = "raise"
            info["observed"] = "%s: %s" % (type(e).__name__, e)
            oc = engine.Outcome("raise", exc=e)
            goals = o.raises(S, inp, oc) if o.raises is not None else [("no-raise:" + type(e).__name__, False)]
    for label, g in goals:
        if not bool(g):
            info["failed"].append(label)
    return info


def _short(x, n=400):
    try:
        s = repr(x)
    except Exception:
        s = "<unrepresentable>"
    return s if len(s) <= n else s[:n] + "..."
