"""Contracts for verif/axis.py and the time conversions of verif/util.py (C11), plus name -> object lookups (C13).

The calendar bucket functions go through datetime / calendar (C code the proxies cannot enter): they are checked
against an independently written proleptic-Gregorian calendar for EVERY day 1900-01-01 .. 2100-12-31 (unix times before 1970 are negative) at five
seconds-of-day each (bounded in the second of day, exhaustive in the day); the date conversions are enumerated
for every day 1900-01-01 .. 2100-12-31, which is the complete domain the property names."""
import datetime
import os
import time

import numpy as _np

import verif.axis
import verif.util

from pyvc import framework, sym
from pyvc.framework import Obligation, register, Bag, FIN, NAN, ALL_KINDS

MOD = [verif.axis, verif.util]


# ------------------------------------------------------------------ independent civil calendar (H. Hinnant's algorithms)
def days_from_civil(y, m, d):
    y -= m <= 2
    era = (y if y >= 0 else y - 399) // 400
    yoe = y - era * 400
    doy = (153 * (m + (-3 if m > 2 else 9)) + 2) // 5 + d - 1
    doe = yoe * 365 + yoe // 4 - yoe // 100 + doy
    return era * 146097 + doe - 719468


def civil_from_days(z):
    z += 719468
    era = (z if z >= 0 else z - 146096) // 146097
    doe = z - era * 146097
    yoe = (doe - doe // 1460 + doe // 36524 - doe // 146096) // 365
    y = yoe + era * 400
    doy = doe - (365 * yoe + yoe // 4 - yoe // 100)
    mp = (5 * doy + 2) // 153
    d = doy - (153 * mp + 2) // 5 + 1
    m = mp + (3 if mp < 10 else -9)
    return (y + (m <= 2), m, d)


def weekday(z):
    """0 = Monday; 1970-01-01 (z = 0) was a Thursday"""
    return (z + 3) % 7


import contextlib


@contextlib.contextmanager
def local_timezone(tz):
    """run a piece of code with the process in another local time zone (the UTC calendar must not depend on it)"""
    old = os.environ.get("TZ")
    os.environ["TZ"] = tz
    time.tzset()
    try:
        yield
    finally:
        if old is None:
            os.environ.pop("TZ", None)
        else:
            os.environ["TZ"] = old
        time.tzset()


BUCKET_SPEC = {
    "Year": lambda z, sod, y, m, d: 86400 * days_from_civil(y, 1, 1),
    "Month": lambda z, sod, y, m, d: 86400 * days_from_civil(y, m, 1),
    "Week": lambda z, sod, y, m, d: 86400 * (z - weekday(z)),
    "Day": lambda z, sod, y, m, d: 86400 * z,
    "Dayofyear": lambda z, sod, y, m, d: days_from_civil(2000, m, d) - days_from_civil(2000, 1, 1) + 1,
    "Dayofmonth": lambda z, sod, y, m, d: d,
    "Monthofyear": lambda z, sod, y, m, d: m,
    "Timeofday": lambda z, sod, y, m, d: sod / 3600.0,
}
SECONDS_OF_DAY = [0, 1, 1800, 43200, 86399]


def _enumerated(name, props, bound, body, functions):
    """an obligation decided by a complete / stated enumeration on the real functions"""
    o = Obligation(name, props, None, None, None, kind="BOUNDED", bounded=bound, functions=functions)

    def runner(o, timeout_ms=0, second=False):
        t0 = time.time()
        res = framework.ObResult(o.name)
        try:
            cases, bad = body()
        except Exception as e:
            import traceback
            frames = traceback.extract_tb(e.__traceback__)
            here = os.path.dirname(os.path.dirname(os.path.abspath(__file__)))
            repo = os.path.dirname(os.path.dirname(os.path.abspath(verif.axis.__file__)))
            last_mine = max([i for i, f in enumerate(frames) if f.filename.startswith(here + os.sep)] or [-1])
            last_repo = max([i for i, f in enumerate(frames) if f.filename.startswith(repo + os.sep) and not f.filename.startswith(here + os.sep)] or [-1])
            if last_repo > last_mine:
                # the real code raised on an input of the enumeration: a violation with that input's exception, not a checker error
                f = frames[last_repo]
                bad = {"raised-by-the-real-code": "%s: %s" % (type(e).__name__, e), "at": "%s:%d in %s" % (os.path.relpath(f.filename, repo), f.lineno, f.name)}
                res.paths = res.cases = 0
                res.status = "refuted"
                res.witness = {"_case": bad}
                res.replay = {"outcome": "raise", "observed": str(bad)[:300], "failed": ["enumeration"]}
                res.goals.append(framework.GoalResult("enumeration", "sat", time.time() - t0, backend="concrete-enumeration", path=0, note=str(bad)[:300]))
                res.seconds = time.time() - t0
                return res
            res.status = "error"
            res.note = traceback.format_exc()
            return res
        res.paths = res.cases = cases
        if bad is None:
            res.status = "discharged"
            res.goals.append(framework.GoalResult("enumeration", "unsat", time.time() - t0, backend="concrete-enumeration", path=0, note="%d cases" % cases))
        else:
            res.status = "refuted"
            res.witness = {"_case": bad}
            res.replay = {"outcome": "return", "observed": str(bad)[:300], "failed": ["enumeration"]}
            res.goals.append(framework.GoalResult("enumeration", "sat", time.time() - t0, backend="concrete-enumeration", path=0, note=str(bad)[:300]))
        res.seconds = time.time() - t0
        return res
    o.runner = runner
    o.no_unroll = True
    return register(o)


def _bucket(axis_name):
    def body():
        tot = 0
        for tz in ("UTC", "PST8"):
            with local_timezone(tz):
                cases, bad = body_tz()
            tot += cases
            if bad is not None:
                bad["local-time-zone-of-the-process"] = tz
                return tot, bad
        return tot, None

    def body_tz():
        ax = getattr(verif.axis, axis_name)()
        z0, z1 = days_from_civil(1900, 1, 1), days_from_civil(2100, 12, 31)
        spec = BUCKET_SPEC[axis_name]
        cases = 0
        chunk = 4000
        for start in range(z0, z1 + 1, chunk):
            zs = list(range(start, min(start + chunk, z1 + 1)))
            times, want = [], []
            for z in zs:
                y, m, d = civil_from_days(z)
                for sod in SECONDS_OF_DAY:
                    times.append(z * 86400 + sod)
                    want.append(spec(z, sod, y, m, d))
            try:
                got = ax.compute_from_times(_np.array(times))
            except Exception as e:
                # the real function raised: find the first initialisation time of the chunk for which it does
                for t in times:
                    try:
                        ax.compute_from_times(_np.array([t]))
                    except Exception as e1:
                        return cases, {"axis": axis_name, "unixtime": int(t), "raised": "%s: %s" % (type(e1).__name__, e1),
                                       "utc": str(datetime.datetime(1970, 1, 1) + datetime.timedelta(seconds=int(t)))}
                return cases, {"axis": axis_name, "raised-on-a-vector-of-times": "%s: %s" % (type(e).__name__, e)}
            cases += len(times)
            got = _np.asarray(got, float)
            want = _np.asarray(want, float)
            badpos = _np.where(_np.abs(got - want) > 1e-9)[0]
            if len(badpos):
                i = int(badpos[0])
                return cases, {"axis": axis_name, "unixtime": int(times[i]), "got": float(got[i]), "want": float(want[i]),
                               "utc": str(datetime.datetime(1970, 1, 1) + datetime.timedelta(seconds=int(times[i])))}
        return cases, None
    return body


for _ax in sorted(BUCKET_SPEC):
    _enumerated("verif.axis.%s.compute_from_times#BOUNDED:calendar-bucket" % _ax, ("C11",),
                "every day 1900-01-01..2100-12-31 (exhaustive; times before 1970 are negative) x seconds of day {0, 1, 1800, 43200, 86399}, against an independent civil calendar, with the process in UTC and in PST8",
                _bucket(_ax), ["verif.axis.%s.compute_from_times" % _ax])


def _conversions():
    def body():
        tot = 0
        for tz in ("UTC", "PST8"):
            with local_timezone(tz):
                cases, bad = body_tz(1 if tz == "UTC" else 7)
            tot += cases
            if bad is not None:
                bad["local-time-zone-of-the-process"] = tz
                return tot, bad
        return tot, None

    def body_tz(stride):
        z0, z1 = days_from_civil(1900, 1, 1), days_from_civil(2100, 12, 31)
        cases = 0
        import matplotlib.dates
        epoch = matplotlib.dates.date2num(datetime.datetime(1970, 1, 1))
        for z in range(z0, z1 + 1, stride):
            y, m, d = civil_from_days(z)
            date = y * 10000 + m * 100 + d
            ut = z * 86400
            cases += 1
            a = verif.util.date_to_unixtime(date)
            if a != ut:
                return cases, {"fn": "date_to_unixtime", "date": date, "got": a, "want": ut}
            for sod in (0, 86399):
                b = verif.util.unixtime_to_date(ut + sod)
                if b != date:
                    return cases, {"fn": "unixtime_to_date", "unixtime": ut + sod, "got": b, "want": date}
            dn = verif.util.date_to_datenum(date)
            if abs(dn - (epoch + z)) > 1e-9:
                return cases, {"fn": "date_to_datenum", "date": date, "got": dn, "want": epoch + z}
            if abs(verif.util.unixtime_to_datenum(ut) - dn) > 1e-9:
                return cases, {"fn": "unixtime_to_datenum", "unixtime": ut, "got": verif.util.unixtime_to_datenum(ut), "want": dn}
            if verif.util.datenum_to_date(dn) != date:
                return cases, {"fn": "datenum_to_date", "datenum": dn, "got": verif.util.datenum_to_date(dn), "want": date}
            if z < z1:
                y2, m2, d2 = civil_from_days(z + 1)
                nxt = verif.util.get_date(date, 1)
                if nxt != y2 * 10000 + m2 * 100 + d2:
                    return cases, {"fn": "get_date", "date": date, "diff": 1, "got": nxt, "want": y2 * 10000 + m2 * 100 + d2}
        return cases, None
    return body


_enumerated("verif.util.date-conversions#BOUNDED:mutually-inverse-for-every-day-1900-2100", ("C11", "C13"),
            "every calendar day 1900-01-01..2100-12-31: the complete domain named by the property (exhaustive) with the process in UTC, and every 7th day again in PST8",
            _conversions(), ["verif.util.date_to_unixtime", "verif.util.unixtime_to_date", "verif.util.date_to_datenum",
                             "verif.util.unixtime_to_datenum", "verif.util.datenum_to_date", "verif.util.get_date"])


def _get_date_steps():
    def body():
        cases = 0
        z0, z1 = days_from_civil(1999, 12, 1), days_from_civil(2032, 3, 5)
        for z in range(z0, z1 + 1):
            y, m, d = civil_from_days(z)
            date = y * 10000 + m * 100 + d
            for diff in (1, 2, 7, 28, 29, 31, 365, -1, -7, -30):
                y2, m2, d2 = civil_from_days(z + diff)
                got = verif.util.get_date(date, diff)
                cases += 1
                if got != y2 * 10000 + m2 * 100 + d2:
                    return cases, {"fn": "get_date", "date": date, "diff": diff, "got": got, "want": y2 * 10000 + m2 * 100 + d2}
        return cases, None
    return body


_enumerated("verif.util.get_date#BOUNDED:calendar-day-steps", ("C13", "C11"),
            "every day 1999-12-01..2032-03-05 (covers leap years 2000..2032 and all month ends) x steps {1,2,7,28,29,31,365,-1,-7,-30}",
            _get_date_steps(), ["verif.util.get_date"])


# ------------------------------------------------------------------ arithmetic buckets: proved
def _timeofday():
    def setup(G):
        return Bag(t=G.array("t", ("n",), dtype="int"))

    def call(inp):
        return verif.axis.Timeofday().compute_from_times(inp.t)

    def post(S, inp, out):
        def body(i):
            t = S.at(inp.t, i)
            sod = t - 86400 * S.floordiv(t, 86400)
            return S.same(S.at(out, i), S.to_num(sod) / 3600)
        return [("hour-of-day-incl-minutes-and-seconds=(t mod 86400)/3600", S.forall(inp.t, body))]
    return setup, call, post


s, c, p = _timeofday()
register(Obligation("verif.axis.Timeofday.compute_from_times#POST:definition", ("C11",), s, c, p, modules=MOD))


def _leadtimeday():
    def setup(G):
        return Bag(x=G.num("x", numpy=True, grid=[0.0, 6.0, 13.0, 23.5, 24.0, 30.5, 47.0, 48.0, -5.0, -30.0]))

    def call(inp):
        return verif.axis.Leadtimeday().compute_from_leadtimes([inp.x])

    def post(S, inp, out):
        x = inp.x
        r = out[0]
        # whole number of 24 h periods, truncated toward zero
        return [("whole-number-of-24h-periods", S.and_(S.is_integer(r),
                                                      S.implies(x >= 0, S.and_(r * 24 <= x, x < (r + 1) * 24)),
                                                      S.implies(x < 0, S.and_(r * 24 >= x, x > (r - 1) * 24))))]
    return setup, call, post


s, c, p = _leadtimeday()
register(Obligation("verif.axis.Leadtimeday.compute_from_leadtimes#POST:definition", ("C11",), s, c, p, modules=MOD))


# ------------------------------------------------------------------ partition lemma over the np.unique contract
def _partition():
    """with the assumed contract of np.unique (strictly ascending, same element set) every case lies in exactly one slice"""
    def setup(G):
        vals = G.array("vals", ("c",), kinds=(FIN,))
        uniq = G.array("uniq", ("u",), kinds=(FIN,))
        G.assume_sorted(uniq)
        return Bag(vals=vals, uniq=uniq, k1=G.num("k1", integer=True), k2=G.num("k2", integer=True), c=G.num("c", integer=True))

    def call(inp):
        return None

    def post(S, inp, out):
        n = S.length(inp.uniq)
        inr = S.and_(inp.k1 >= 0, inp.k1 < n, inp.k2 >= 0, inp.k2 < n)
        S.note_index(inp.uniq, inp.k1)
        S.note_index(inp.uniq, inp.k2)
        v = S.at(inp.vals, (inp.c,))
        return [("a-case-is-in-at-most-one-slice", S.implies(S.and_(inr, S.same(v, S.at(inp.uniq, (inp.k1,))), S.same(v, S.at(inp.uniq, (inp.k2,)))),
                                                             S.same(inp.k1, inp.k2)))]
    return setup, call, post


s, c, p = _partition()
_o = register(Obligation("C11.lemma#LEMMA:slices-of-an-axis-are-disjoint", ("C11",), s, c, p, modules=[],
                    assumptions=["np.unique returns the distinct values in strictly ascending order, each value of the input exactly once (assumed contract); "
                                 "hence every case is in exactly one slice; slice counts add up (lean R6) and the count-weighted mean identity holds (lean R7)"]))
_o.no_crosscheck = True     # a lemma over contracts: no code to run (and its indices are only meaningful under the range hypothesis)


# ------------------------------------------------------------------ name -> object lookups
def _lookup(modname, getter, names, unknown_aborts):
    import importlib
    mod = importlib.import_module(modname)

    def body():
        cases = 0
        for nm in names:
            cases += 1
            obj = getter(mod)(nm)
            if obj is None or type(obj).__name__.lower() != nm:
                return cases, {"module": modname, "name": nm, "got": repr(obj)}
        if unknown_aborts:
            for nm in ("nosuchthing", "", "Mean ", "MEAN"):
                cases += 1
                try:
                    import contextlib, io
                    with contextlib.redirect_stdout(io.StringIO()):
                        getter(mod)(nm)
                    return cases, {"module": modname, "name": nm, "got": "returned instead of an error exit"}
                except SystemExit as e:
                    if e.code != 1:
                        return cases, {"module": modname, "name": nm, "got": "exit status %r" % (e.code,)}
        return cases, None
    return body


_AXES = ["time", "leadtime", "leadtimeday", "location", "lat", "lon", "elev", "all", "no", "year", "month", "week", "timeofday", "dayofyear", "day",
         "dayofmonth", "monthofyear", "obs", "fcst", "threshold"]
_AGGS = ["mean", "median", "min", "max", "std", "variance", "iqr", "range", "count", "sum", "meanabs", "absmean", "change", "abschange"]
_enumerated("verif.axis.get#BOUNDED:every-documented-name", ("C13", "C11"), "all 20 axis names (complete) + 4 unknown names must exit with status 1",
            _lookup("verif.axis", lambda m: m.get, _AXES, True), ["verif.axis.get"])
_enumerated("verif.aggregator.get#BOUNDED:every-documented-name", ("C13", "C15"), "all 14 aggregator names (complete) + 4 unknown names must exit with status 1",
            _lookup("verif.aggregator", lambda m: m.get, _AGGS, True), ["verif.aggregator.get"])
