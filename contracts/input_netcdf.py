"""C10 (partial, bounded): the NetCDF reader of verif/input.py and the text2nc script.

No deductive part of its own: every NetCDF value passes through util.clean, whose contract is proved under C04.
What is decided here, by executing the real code over stated finite domains (labelled bounded):
  (1) verif.input.Netcdf against a stub netCDF4.Dataset: each attribute is clean() of the documented variable,
      optional variables absent => documented default, variable metadata from the global attributes;
  (2) get_input detects the format from the file content, not from the name (real files);
  (3) text -> text2nc -> Netcdf yields the same dataset as the text reader, to float32 precision (real files)."""
import contextlib
import importlib.util
import io
import itertools
import os
import random
import shutil
import sys
import tempfile

import numpy as _np

import verif.input
import verif.util

from pyvc import engine
from .axis import _enumerated
from .input_text import _gen_file


class FakeVar(object):
    def __init__(self, data, mask=None):
        self._m = _np.ma.masked_array(_np.asarray(data, float), mask=mask if mask is not None else _np.zeros(_np.shape(data), bool))

    @property
    def shape(self):
        return self._m.shape

    def __getitem__(self, k):
        if not getattr(self, "auto_mask", True):
            # netCDF4 with auto-masking switched off hands out the stored numbers, fill values included
            return _np.ma.filled(self._m, -9999.0)[k]
        return self._m[k]

    def set_auto_mask(self, flag):
        self.auto_mask = bool(flag)

    def set_auto_maskandscale(self, flag):
        self.auto_mask = bool(flag)

    def expected(self):
        """what the reader must return: NaN at masked cells and at -999 / NaN / >1e30, the stored number elsewhere"""
        d = _np.array(self._m.data, float)
        miss = _np.ma.getmaskarray(self._m) | _np.isnan(d) | (d == -999) | (d > 1e30)
        d[miss] = _np.nan
        return d


class FakeDataset(object):
    def __init__(self, variables, dims, attrs):
        self.variables = variables
        self.dimensions = dims
        for k, v in attrs.items():
            setattr(self, k, v)

    def close(self):
        pass

    def set_auto_mask(self, flag):
        for v in self.variables.values():
            v.set_auto_mask(flag)

    def set_auto_maskandscale(self, flag):
        self.set_auto_mask(flag)

    def set_auto_scale(self, flag):
        pass

    def set_always_mask(self, flag):
        pass


class _Dim(object):
    def __init__(self, n):
        self.n = n

    def __len__(self):
        return self.n


def _same_arr(a, b):
    a, b = _np.asarray(a, float), _np.asarray(b, float)
    return a.shape == b.shape and bool(_np.all((a == b) | (_np.isnan(a) & _np.isnan(b))))


def _netcdf_reader():
    def body():
        rnd = random.Random(int(os.environ.get("VERIF_SEED", "0")))
        cases = 0
        T, L, S, K, Q, E = 2, 2, 3, 2, 2, 3
        optional = ["obs", "fcst", "pit", "ensemble", "cdf", "x", "lat", "lon", "altitude", "location", "myscore"]
        attr_sets = [{}, {"long_name": "Precip", "units": "mm"}, {"standard_name": "air_temperature", "units": "%"},
                     {"long_name": "A", "standard_name": "B", "units": "", "x0": 0.0, "x1": 100.0}]
        subsets = [set(optional)] + [set(rnd.sample(optional, rnd.randint(0, len(optional)))) for _ in range(60)] + [set()]
        for present in subsets:
            for attrs in attr_sets:
                def arr(*shape):
                    a = _np.array([rnd.choice([1.5, -2.0, 0.0, -999.0, 2e30, float("nan"), 7.25]) for _ in range(int(_np.prod(shape)))]).reshape(shape)
                    return FakeVar(a, mask=_np.array([rnd.random() < 0.15 for _ in range(a.size)]).reshape(shape))
                V = {"time": FakeVar([0.0, 86400.0]), "leadtime": FakeVar([0.0, 6.0])}
                if "obs" in present: V["obs"] = arr(T, L, S)
                if "fcst" in present: V["fcst"] = arr(T, L, S)
                if "pit" in present: V["pit"] = arr(T, L, S)
                if "ensemble" in present: V["ensemble"] = arr(T, L, S, E)
                if "cdf" in present:
                    V["cdf"] = arr(T, L, S, K); V["threshold"] = FakeVar([0.5, 10.0])
                if "x" in present:
                    V["x"] = arr(T, L, S, Q); V["quantile"] = FakeVar([0.1, 0.9])
                if "lat" in present: V["lat"] = FakeVar([60.0, 61.5, -33.0])
                if "lon" in present: V["lon"] = FakeVar([10.0, 11.5, 151.0])
                if "altitude" in present: V["altitude"] = FakeVar([100.0, 0.0, 5.5])
                if "location" in present: V["location"] = FakeVar([3, 18, 7])
                if "myscore" in present: V["myscore"] = arr(T, L, S)
                ds = FakeDataset(V, {"time": _Dim(T), "leadtime": _Dim(L), "location": _Dim(S)}, attrs)

                class _NC(object):
                    @staticmethod
                    def Dataset(fn, mode="r"):
                        return ds
                with engine.patched(verif.input, netCDF4=_NC):
                    inp = verif.input.Netcdf("stub.nc")
                    cases += 1
                    # expectation computed independently of the repository (not by calling clean())
                    C = lambda var: var.expected()

                    def want(name):
                        return C(V[name]) if name in V else None
                    problems = []
                    for attr, var in (("obs", "obs"), ("fcst", "fcst"), ("pit", "pit"), ("ensemble", "ensemble"), ("threshold_scores", "cdf"), ("quantile_scores", "x")):
                        got, w = getattr(inp, attr), want(var)
                        if (got is None) != (w is None) or (w is not None and not _same_arr(got, w)):
                            problems.append("%s is not the variable '%s' with its missing cells as NaN" % (attr, var))
                    if not _same_arr(inp.times, C(V["time"])) or not _same_arr(inp.leadtimes, C(V["leadtime"])):
                        problems.append("times/leadtimes")
                    if not _same_arr(inp.thresholds, C(V["threshold"]) if "threshold" in V else _np.array([])):
                        problems.append("thresholds")
                    if not _same_arr(inp.quantiles, C(V["quantile"]) if "quantile" in V else _np.array([])):
                        problems.append("quantiles")
                    ids = [l.id for l in inp.locations]
                    lats = [l.lat for l in inp.locations]
                    lons = [l.lon for l in inp.locations]
                    elevs = [l.elev for l in inp.locations]
                    if not _same_arr(ids, C(V["location"]) if "location" in V else _np.arange(S)): problems.append("location ids")
                    if not _same_arr(lats, C(V["lat"]) if "lat" in V else _np.zeros(S)): problems.append("lat")
                    if not _same_arr(lons, C(V["lon"]) if "lon" in V else _np.zeros(S)): problems.append("lon")
                    if not _same_arr(elevs, C(V["altitude"]) if "altitude" in V else _np.nan * _np.zeros(S)): problems.append("elev")
                    if sorted(inp.other_fields) != sorted(v for v in V if v in ("pit", "ensemble", "myscore", "time")):
                        pass      # the reader lists every non-regular variable (incl. pit, ensemble, time): not constrained by the property
                    if "myscore" in V and not _same_arr(inp.other_score("myscore"), C(V["myscore"])): problems.append("other field")
                    name = attrs.get("long_name", attrs.get("standard_name", "Unknown variable"))
                    u = attrs.get("units", "")
                    units = "Unknown units" if u == "" else ("%" if u == "%" else "$" + u + "$")
                    v = inp.variable
                    if (v.name, v.units, v.x0, v.x1) != (name, units, attrs.get("x0"), attrs.get("x1")):
                        problems.append("variable metadata %r" % ((v.name, v.units, v.x0, v.x1),))
                    if inp.num_members != (E if "ensemble" in V else 0):
                        problems.append("num_members")
                    if problems:
                        return cases, {"variables-present": sorted(V), "attributes": attrs, "problems": problems}
        return cases, None
    return body


_enumerated("verif.input.Netcdf#BOUNDED:every-attribute-is-clean(documented-variable)", ("C10", "C04"),
            "a stub netCDF4.Dataset with 62 subsets of the 11 optional variables x 4 global-attribute sets, values incl. -999, 2e30, NaN and masked cells",
            _netcdf_reader(), ["verif.input.Netcdf.__init__", "verif.input.Netcdf._get_locations", "verif.input.Netcdf._get_variable", "verif.input.Netcdf.obs"])


def _load_text2nc():
    path = os.path.join(os.path.dirname(os.path.dirname(verif.__file__)), "scripts", "text2nc.py")
    spec = importlib.util.spec_from_file_location("pyvc_text2nc", path)
    mod = importlib.util.module_from_spec(spec)
    spec.loader.exec_module(mod)
    return mod


def _f32(a, b):
    a, b = _np.asarray(a, float), _np.asarray(b, float)
    if a.shape != b.shape:
        return False
    with _np.errstate(all="ignore"):
        ok = (_np.isnan(a) & _np.isnan(b)) | (_np.abs(a - b) <= 1e-6 * _np.maximum(1.0, _np.abs(b)))
    return bool(_np.all(ok))


def _roundtrip():
    def body():
        import verif
        rnd = random.Random(int(os.environ.get("VERIF_SEED", "0")) + 5)
        n = 400 if os.environ.get("PYVC_TIER") == "thorough" else 60
        tmp = tempfile.mkdtemp(prefix="pyvc.nc.", dir="/var/tmp")
        cases = 0
        try:
            t2n = _load_text2nc()
            while cases < n:
                g = _gen_file(rnd)
                if g is None:
                    continue
                text, exp = g
                if "obs" not in exp["data_cols"] or "fcst" not in exp["data_cols"]:
                    continue          # text2nc writes obs and fcst unconditionally
                cases += 1
                # misleading names: the format must be detected from the content
                tpath, npath = os.path.join(tmp, "text_file_%d.nc" % cases), os.path.join(tmp, "netcdf_file_%d.txt" % cases)
                open(tpath, "w").write(text)
                old = sys.argv
                try:
                    sys.argv = ["text2nc", tpath, npath]
                    with contextlib.redirect_stdout(io.StringIO()):
                        t2n.main()
                except SystemExit as e:
                    return cases, {"problem": "text2nc stopped with exit status %r" % (e.code,), "file": text[:800]}
                except Exception as e:
                    return cases, {"problem": "text2nc raised %s: %s" % (type(e).__name__, e), "file": text[:800]}
                finally:
                    sys.argv = old
                with contextlib.redirect_stdout(io.StringIO()):
                    a = verif.input.get_input(tpath)
                    b = verif.input.get_input(npath)
                if type(a).__name__ != "Text" or type(b).__name__ != "Netcdf":
                    return cases, {"problem": "format not detected from content: %s / %s" % (type(a).__name__, type(b).__name__)}
                order = {float(l.id): i for i, l in enumerate(a.locations)}
                perm = [order[float(l.id)] for l in b.locations] if sorted(order) == sorted(float(l.id) for l in b.locations) else None
                if perm is None:
                    return cases, {"problem": "location ids differ", "text": sorted(order), "netcdf": [float(l.id) for l in b.locations]}
                problems = []
                if not _f32(a.times, b.times): problems.append("times")
                if not _f32(a.leadtimes, b.leadtimes): problems.append("leadtimes")
                for la in a.locations:
                    lb = [l for l in b.locations if float(l.id) == float(la.id)][0]
                    if not _f32([la.lat, la.lon, la.elev], [lb.lat, lb.lon, lb.elev]): problems.append("metadata of location %r" % la.id)
                if not _f32(a.obs[:, :, perm], b.obs): problems.append("obs")
                if not _f32(a.fcst[:, :, perm], b.fcst): problems.append("fcst")
                if len(exp["thr"]):
                    oa = _np.argsort(a.thresholds); ob = _np.argsort(b.thresholds)
                    if not _f32(a.thresholds[oa], b.thresholds[ob]) or not _f32(a.threshold_scores[:, :, perm, :][..., oa], b.threshold_scores[..., ob]): problems.append("cdf")
                if len(exp["qs"]):
                    oa = _np.argsort(a.quantiles); ob = _np.argsort(b.quantiles)
                    if not _f32(a.quantiles[oa], b.quantiles[ob]) or not _f32(a.quantile_scores[:, :, perm, :][..., oa], b.quantile_scores[..., ob]): problems.append("quantiles")
                for nm in exp["others"]:
                    if nm not in b.other_fields or not _f32(a.other_score(nm)[:, :, perm], b.other_score(nm)): problems.append("other field " + nm)
                if "pit" in exp["data_cols"] and (b.pit is None or not _f32(a.pit[:, :, perm], b.pit)): problems.append("pit")
                if len(exp["mem"]) and (b.ensemble is None or not _f32(a.ensemble[:, :, perm, :], b.ensemble)): problems.append("ensemble")
                if exp["varname"] is not None and b.variable.name != exp["varname"]: problems.append("variable name")
                if problems:
                    return cases, {"problems": problems, "file": text[:800]}
        finally:
            shutil.rmtree(tmp, ignore_errors=True)
        return cases, None
    return body


_enumerated("scripts.text2nc+verif.input.get_input#BOUNDED:text-and-netcdf-carry-the-same-dataset", ("C10",),
            "seeded random well-formed text files (the C09 generator, with obs and fcst columns) converted by the real text2nc script and read back with the real "
            "netCDF4 library under misleading file names: 60 files (quick) / 400 (thorough), values compared to float32 precision",
            _roundtrip(), ["scripts/text2nc.py:main", "verif.input.get_input", "verif.input.Netcdf.is_valid", "verif.util.is_valid_nc"])


# ------------------------------------------------------------------ real NetCDF files, every encoding of a missing value
def _nc_encodings():
    """files in the documented layout written with the real netCDF4 library; the cells that are missing are encoded as masked cells
    under the default fill value, under a declared _FillValue, as a declared missing_value, as -999, NaN or 2e30; the reader
    must return NaN exactly there and the stored numbers elsewhere (float32-representable values, so exactly)"""
    def body():
        import netCDF4
        rnd = random.Random(int(os.environ.get("VERIF_SEED", "0")) + 11)
        n = 300 if os.environ.get("PYVC_TIER") == "thorough" else 48
        tmp = tempfile.mkdtemp(prefix="pyvc.nc2.", dir="/var/tmp")
        ENC = ["masked-default-fill", "declared-_FillValue", "declared-missing_value", "-999", "nan", "2e30"]
        cases = 0
        try:
            for case in range(n):
                cases += 1
                T, L, S_ = rnd.choice([1, 2, 3]), rnd.choice([1, 2]), rnd.choice([1, 2, 3])
                K, Q, M = rnd.choice([0, 2]), rnd.choice([0, 2]), rnd.choice([0, 3])
                path = os.path.join(tmp, "case%d.dat" % case)
                ds = netCDF4.Dataset(path, "w")
                ds.createDimension("time", None); ds.createDimension("leadtime", L); ds.createDimension("location", S_)
                if K: ds.createDimension("threshold", K)
                if Q: ds.createDimension("quantile", Q)
                if M: ds.createDimension("ensemble_member", M)
                ds.createVariable("time", "i4", ("time",))[:] = [86400 * (15000 + i) for i in range(T)]
                ds.createVariable("leadtime", "f4", ("leadtime",))[:] = [6.0 * i for i in range(L)]
                ds.createVariable("location", "i4", ("location",))[:] = [10 + i for i in range(S_)]
                ds.createVariable("lat", "f4", ("location",))[:] = [60.5 + i for i in range(S_)]
                ds.createVariable("lon", "f4", ("location",))[:] = [10.25 - i for i in range(S_)]
                if rnd.random() < 0.7:
                    ds.createVariable("altitude", "f4", ("location",))[:] = [100.0 * i for i in range(S_)]
                if K: ds.createVariable("threshold", "f4", ("threshold",))[:] = [0.5, 2.0]
                if Q: ds.createVariable("quantile", "f4", ("quantile",))[:] = [0.25, 0.75]
                want = {}
                specs = [("obs", ("time", "leadtime", "location")), ("fcst", ("time", "leadtime", "location"))]
                if rnd.random() < 0.5: specs.append(("pit", ("time", "leadtime", "location")))
                if rnd.random() < 0.5: specs.append(("myscore", ("time", "leadtime", "location")))
                if K: specs.append(("cdf", ("time", "leadtime", "location", "threshold")))
                if Q: specs.append(("x", ("time", "leadtime", "location", "quantile")))
                if M: specs.append(("ensemble", ("time", "leadtime", "location", "ensemble_member")))
                encs = {}
                for name, dims in specs:
                    shape = [{"time": T, "leadtime": L, "location": S_, "threshold": K, "quantile": Q, "ensemble_member": M}[d] for d in dims]
                    vals = _np.array([rnd.choice([0.0, 1.5, -2.25, 7.0, 0.125, 1024.0]) for _ in range(int(_np.prod(shape)))], float).reshape(shape)
                    miss = _np.array([rnd.random() < 0.3 for _ in range(vals.size)]).reshape(shape)
                    enc = rnd.choice(ENC)
                    encs[name] = enc
                    dtype = rnd.choice(["f4", "f8"])
                    if enc == "declared-_FillValue":
                        v = ds.createVariable(name, dtype, dims, fill_value=-9999.0)
                        v[:] = _np.ma.masked_array(vals, mask=miss)
                    elif enc == "declared-missing_value":
                        v = ds.createVariable(name, dtype, dims)
                        v.missing_value = _np.array(-8888.0, "f4" if dtype == "f4" else "f8")
                        raw = vals.copy(); raw[miss] = -8888.0
                        v[:] = raw
                    elif enc == "masked-default-fill":
                        v = ds.createVariable(name, dtype, dims)
                        v[:] = _np.ma.masked_array(vals, mask=miss)
                    else:
                        v = ds.createVariable(name, dtype, dims)
                        raw = vals.copy(); raw[miss] = {"-999": -999.0, "nan": _np.nan, "2e30": 2e30}[enc]
                        v[:] = raw
                    w = vals.copy(); w[miss] = _np.nan
                    want[name] = w
                ds.long_name = "Temperature"; ds.units = "K"
                ds.close()
                with contextlib.redirect_stdout(io.StringIO()):
                    inp = verif.input.get_input(path)
                if type(inp).__name__ != "Netcdf":
                    return cases, {"problem": "a NetCDF file named .dat was not recognised from its content", "got": type(inp).__name__}
                got = {"obs": inp.obs, "fcst": inp.fcst, "pit": inp.pit, "cdf": inp.threshold_scores, "x": inp.quantile_scores, "ensemble": inp.ensemble}
                if "myscore" in want:
                    got["myscore"] = inp.other_score("myscore") if "myscore" in inp.other_fields else None
                for name, w in want.items():
                    g = got.get(name)
                    if g is None:
                        return cases, {"problem": "variable %s is in the file but the reader returns None" % name, "encoding": encs[name]}
                    g = _np.asarray(g, float)
                    same = g.shape == w.shape and bool(_np.all((_np.isnan(g) & _np.isnan(w)) | (g == w)))
                    if not same:
                        return cases, {"problem": "variable %s: missing cells encoded as %s" % (name, encs[name]), "got": g.tolist(), "want": w.tolist()}
                for name in ("pit", "cdf", "x", "ensemble"):
                    if name not in want and got[name] is not None:
                        return cases, {"problem": "%s returned although the file has no such variable" % name}
        finally:
            shutil.rmtree(tmp, ignore_errors=True)
        return cases, None
    return body


_enumerated("verif.input.Netcdf#BOUNDED:real-files,every-encoding-of-missing-values", ("C10", "C04"),
            "seeded random NetCDF files in the documented layout written with the real netCDF4 library (48 quick / 300 thorough): 1..3 times, 1..2 lead times, "
            "1..3 locations, optional altitude / pit / other / cdf / x / ensemble variables in f4 or f8, missing cells encoded as masked (default fill), declared "
            "_FillValue=-9999, declared missing_value=-8888, -999, NaN or 2e30; read through get_input under a misleading file name",
            _nc_encodings(), ["verif.input.get_input", "verif.input.Netcdf.__init__", "verif.input.Netcdf.obs", "verif.util.clean"])
