"""Contracts for the 2x2 contingency metrics of verif/metric.py (property C06, C04)."""
import contextlib

import verif.metric
import verif.interval
import verif.util

from pyvc.framework import Obligation, register, Bag, FIN, NAN, PINF, NINF, MASKED, ALL_KINDS
from .common import member, event, NOT_NAN

MOD = [verif.metric, verif.interval]


# ------------------------------------------------------------------ _compute_abcd
def _intervals(G, with_f):
    iv = Bag(lower=G.num("lower", kinds=NOT_NAN), upper=G.num("upper", kinds=NOT_NAN),
             lower_eq=G.boolean("lower_eq"), upper_eq=G.boolean("upper_eq"))
    fv = None
    if with_f:
        fv = Bag(lower=G.num("f_lower", kinds=NOT_NAN), upper=G.num("f_upper", kinds=NOT_NAN),
                 lower_eq=G.boolean("f_lower_eq"), upper_eq=G.boolean("f_upper_eq"))
    return iv, fv


def _mk(iv):
    return verif.interval.Interval(iv.lower, iv.upper, iv.lower_eq, iv.upper_eq)


def _abcd(with_f):
    def setup(G):
        iv, fv = _intervals(G, with_f)
        return Bag(obs=G.array("obs", ("n",), kinds=ALL_KINDS), fcst=G.array("fcst", ("n",), kinds=ALL_KINDS), iv=iv, fv=fv)

    def call(inp):
        m = verif.metric.Ets()
        return m._compute_abcd(inp.obs, inp.fcst, _mk(inp.iv), _mk(inp.fv) if inp.fv is not None else None)

    def post(S, inp, out):
        a, b, c, d = out
        iv, fv = inp.iv, (inp.fv if inp.fv is not None else inp.iv)
        obs, fcst = inp.obs, inp.fcst

        def O(i): return member(S, S.at(obs, i), iv.lower, iv.upper, bool(iv.lower_eq), bool(iv.upper_eq))
        def F(i): return member(S, S.at(fcst, i), fv.lower, fv.upper, bool(fv.lower_eq), bool(fv.upper_eq))
        def V(i): return S.and_(S.not_(S.isnan(S.at(obs, i))), S.not_(S.isnan(S.at(fcst, i))))
        n = S.length(fcst)
        nvalid = S.count_where(obs, V)
        wa = S.count_where(obs, lambda i: S.and_(V(i), F(i), O(i)))
        wb = S.count_where(obs, lambda i: S.and_(V(i), F(i), S.not_(O(i))))
        wc = S.count_where(obs, lambda i: S.and_(V(i), S.not_(F(i)), O(i)))
        wd = S.count_where(obs, lambda i: S.and_(V(i), S.not_(F(i)), S.not_(O(i))))
        empty = S.same(n, 0)
        novalid = S.same(nvalid, 0)
        goals = [
            ("empty-input-gives-four-nan", S.implies(empty, S.and_(*[S.isnan(x) for x in (a, b, c, d)]))),
            ("no-valid-pair-gives-missing", S.implies(S.and_(S.not_(empty), novalid), S.and_(*[S.ismissing(x) for x in (a, b, c, d)]))),
            ("a-is-hits", S.implies(S.not_(novalid), S.same(a, wa))),
            ("b-is-false-alarms", S.implies(S.not_(novalid), S.same(b, wb))),
            ("c-is-misses", S.implies(S.not_(novalid), S.same(c, wc))),
            ("d-is-correct-rejections", S.implies(S.not_(novalid), S.same(d, wd))),
            ("counts-sum-to-number-of-valid-pairs", S.lin_zero([(1, wa), (1, wb), (1, wc), (1, wd), (-1, nvalid)])),
        ]
        return goals

    def canary(S, inp, out):
        a, b, c, d = out
        iv, fv = inp.iv, (inp.fv if inp.fv is not None else inp.iv)
        obs, fcst = inp.obs, inp.fcst

        def O(i): return member(S, S.at(obs, i), iv.lower, iv.upper, bool(iv.lower_eq), bool(iv.upper_eq))
        def F(i): return member(S, S.at(fcst, i), fv.lower, fv.upper, bool(fv.lower_eq), bool(fv.upper_eq))
        def V(i): return S.and_(S.not_(S.isnan(S.at(obs, i))), S.not_(S.isnan(S.at(fcst, i))))
        wc = S.count_where(obs, lambda i: S.and_(V(i), S.not_(F(i)), O(i)))
        return [("b-is-misses(wrong)", S.implies(S.not_(S.same(S.count_where(obs, V), 0)), S.same(b, wc)))]
    return setup, call, post, canary


for _wf in (False, True):
    s, c, p, cn = _abcd(_wf)
    register(Obligation("verif.metric.Contingency._compute_abcd#POST:table%s" % ("[f_interval]" if _wf else ""), ("C06", "C04", "C07"),
                        s, c, p, modules=MOD, canary=cn, functions=["verif.metric.Contingency._compute_abcd"]))


def _abcd_swap():
    """exchanging observations and forecasts exchanges misses and false alarms"""
    def setup(G):
        iv, _ = _intervals(G, False)
        return Bag(obs=G.array("obs", ("n",), kinds=ALL_KINDS), fcst=G.array("fcst", ("n",), kinds=ALL_KINDS), iv=iv)

    def call(inp):
        m = verif.metric.Ets()
        return m._compute_abcd(inp.obs, inp.fcst, _mk(inp.iv)), m._compute_abcd(inp.fcst, inp.obs, _mk(inp.iv))

    def post(S, inp, out):
        (a, b, c, d), (a2, b2, c2, d2) = out
        return [("swap-exchanges-b-and-c", S.and_(S.same(a, a2), S.same(b, c2), S.same(c, b2), S.same(d, d2)))]
    return setup, call, post


s, c, p = _abcd_swap()
register(Obligation("verif.metric.Contingency._compute_abcd#LEMMA:swap-obs-fcst", ("C06",), s, c, p, modules=MOD,
                    functions=["verif.metric.Contingency._compute_abcd"]))


def _abcd_complement():
    """complementing the event (above t  <->  below= t) exchanges hits and correct rejections, and b with c"""
    def setup(G):
        return Bag(obs=G.array("obs", ("n",), kinds=(FIN, NAN)), fcst=G.array("fcst", ("n",), kinds=(FIN, NAN)), t=G.num("t"))

    def call(inp):
        m = verif.metric.Ets()
        up = verif.interval.Interval(inp.t, float("inf"), False, False)       # above t
        dn = verif.interval.Interval(float("-inf"), inp.t, False, True)       # below= t
        return m._compute_abcd(inp.obs, inp.fcst, up), m._compute_abcd(inp.obs, inp.fcst, dn)

    def post(S, inp, out):
        (a, b, c, d), (a2, b2, c2, d2) = out
        return [("complement-exchanges-a-d-and-b-c", S.and_(S.same(a, d2), S.same(d, a2), S.same(b, c2), S.same(c, b2)))]
    return setup, call, post


s, c, p = _abcd_complement()
register(Obligation("verif.metric.Contingency._compute_abcd#LEMMA:complement-event", ("C06",), s, c, p, modules=MOD,
                    functions=["verif.metric.Contingency._compute_abcd"]))


# ------------------------------------------------------------------ compute_from_obs_fcst (wiring + inf guard)
def _cfof():
    def setup(G):
        iv, fv = _intervals(G, True)
        inp = Bag(obs=G.array("obs", ("n",), kinds=ALL_KINDS), fcst=G.array("fcst", ("n",), kinds=ALL_KINDS), iv=iv, fv=fv,
                  abcd=[G.num(x, kinds=(FIN, NAN, MASKED)) for x in "abcd"], v=G.num("v", kinds=(FIN, NAN, PINF, NINF, MASKED)),
                  rec={})
        return inp

    def call(inp):
        m = verif.metric.Ets()
        I, FI = _mk(inp.iv), _mk(inp.fv)
        inp.rec["I"], inp.rec["FI"] = I, FI

        def stub_abcd(obs, fcst, interval, f_interval=None):
            inp.rec["abcd_args"] = (obs, fcst, interval, f_interval)
            return list(inp.abcd)

        def stub_from(a, b, c, d):
            inp.rec["from_args"] = (a, b, c, d)
            return inp.v
        m._compute_abcd = stub_abcd
        m.compute_from_abcd = stub_from
        return m.compute_from_obs_fcst(inp.obs, inp.fcst, I, FI)

    def post(S, inp, out):
        r = inp.rec
        if "abcd_args" not in r or "from_args" not in r:
            # the table was not counted or the formula was not evaluated on it: the score cannot be the formula of the table
            return [("the-score-is-the-formula-evaluated-on-the-counted-table", False)]
        wiring = (r["abcd_args"][0] is inp.obs and r["abcd_args"][1] is inp.fcst and r["abcd_args"][2] is r["I"]
                  and r["abcd_args"][3] is r["FI"] and all(x is y for x, y in zip(r["from_args"], inp.abcd)))
        v = inp.v
        return [("PRE@callsite:table-and-formula-receive-the-arguments-unchanged", wiring),
                ("infinite-score-becomes-nan", S.implies(S.isinf(v), S.isnan(out))),
                ("other-scores-returned-unchanged", S.implies(S.not_(S.isinf(v)), S.same(out, v)))]
    return setup, call, post


s, c, p = _cfof()
register(Obligation("verif.metric.Contingency.compute_from_obs_fcst#POST:wiring-and-inf-guard", ("C06", "C04"), s, c, p, modules=MOD,
                    functions=["verif.metric.Contingency.compute_from_obs_fcst"]))


# ------------------------------------------------------------------ the 25 formulas
def _ln(S, x):
    return S.log(x)


def T_ets(S, a, b, c, d):
    N = a + b + c + d
    ar = (a + b) * (a + c) / N
    return (a - ar) / (a + b + c - ar)


def T_hss(S, a, b, c, d):
    # (correct - expected correct) / (N - expected correct)
    N = a + b + c + d
    E = ((a + b) * (a + c) + (c + d) * (b + d)) / N
    return (a + d - E) / (N - E)


def T_edi(S, a, b, c, d):
    H, F = a / (a + c), b / (b + d)
    return (_ln(S, F) - _ln(S, H)) / (_ln(S, F) + _ln(S, H))


def T_sedi(S, a, b, c, d):
    H, F = a / (a + c), b / (b + d)
    return (_ln(S, F) - _ln(S, H) - _ln(S, 1 - F) + _ln(S, 1 - H)) / (_ln(S, F) + _ln(S, H) + _ln(S, 1 - F) + _ln(S, 1 - H))


def T_eds(S, a, b, c, d):
    N = a + b + c + d
    # 2 ln((a+c)/N) / ln(a/N) - 1  written over the common denominator ln(a/N) = ln(p) + ln(H)
    p, H = (a + c) / N, a / (a + c)
    return (_ln(S, p) - _ln(S, H)) / (_ln(S, p) + _ln(S, H))


def T_seds(S, a, b, c, d):
    N = a + b + c + d
    p, q, H = (a + c) / N, (a + b) / N, a / (a + c)
    return (_ln(S, q) - _ln(S, H)) / (_ln(S, p) + _ln(S, H))


TEXTBOOK = {
    "A": lambda S, a, b, c, d: a / (a + b + c + d),
    "B": lambda S, a, b, c, d: b / (a + b + c + d),
    "C": lambda S, a, b, c, d: c / (a + b + c + d),
    "D": lambda S, a, b, c, d: d / (a + b + c + d),
    "N": lambda S, a, b, c, d: a + b + c + d,
    "Ets": T_ets,
    "FcstRate": lambda S, a, b, c, d: (a + b) / (a + b + c + d),
    "Dscore": lambda S, a, b, c, d: (a * d + (a * b + c * d) / 2) / ((a + c) * (b + d)),
    "Threat": lambda S, a, b, c, d: a / (a + b + c),
    "Pc": lambda S, a, b, c, d: (a + d) / (a + b + c + d),
    "Edi": T_edi,
    "Sedi": T_sedi,
    "Eds": T_eds,
    "Seds": T_seds,
    "BiasFreq": lambda S, a, b, c, d: (a + b) / (a + c),
    "Hss": T_hss,
    "BaseRate": lambda S, a, b, c, d: (a + c) / (a + b + c + d),
    "Or": lambda S, a, b, c, d: (a * d) / (b * c),
    "Lor": lambda S, a, b, c, d: S.log((a * d) / (b * c)),
    "YulesQ": lambda S, a, b, c, d: (a * d - b * c) / (a * d + b * c),
    "Kss": lambda S, a, b, c, d: a / (a + c) - b / (b + d),
    "Hit": lambda S, a, b, c, d: a / (a + c),
    "Miss": lambda S, a, b, c, d: c / (a + c),
    "Fa": lambda S, a, b, c, d: b / (b + d),
    "Far": lambda S, a, b, c, d: b / (a + b),
}


def _formula(cls_name):
    cls = getattr(verif.metric, cls_name)
    T = TEXTBOOK[cls_name]

    def setup(G):
        inp = Bag(a=G.num("a"), b=G.num("b"), c=G.num("c"), d=G.num("d"))
        for x in (inp.a, inp.b, inp.c, inp.d):
            G.assume(x >= 0)
        return inp

    def call(inp):
        return cls().compute_from_abcd(inp.a, inp.b, inp.c, inp.d)

    def post(S, inp, out):
        a, b, c, d = inp.a, inp.b, inp.c, inp.d
        want = T(S, a, b, c, d)
        goals = [("DEF:equals-textbook-formula-where-defined", S.implies(S.isfin(want), S.same(out, want))),
                 ("UNDEF:not-a-finite-number-where-undefined", S.implies(S.not_(S.isfin(want)), S.not_(S.isfin(out))))]
        ps = cls.perfect_score
        if cls_name == "Seds":
            # hint: instances of ln(xy) = ln x + ln y for the quantities of the bound (ln is uninterpreted)
            N = a + b + c + d
            pp, qq, HH = (a + c) / N, (a + b) / N, a / (a + c)
            S.ln_rules(qq, HH)
            S.ln_rules(pp, HH)
        if ps is not None:
            goals.append(("PERFECT:no-misses-no-false-alarms-attains-perfect-score-where-defined",
                          S.implies(S.and_(S.same(b, 0), S.same(c, 0), S.isfin(out)), S.same(out, ps))))
            if cls.orientation == 1:
                goals.append(("BOUND:never-better-than-perfect", S.implies(S.isfin(out), out <= ps)))
            elif cls.orientation == -1:
                goals.append(("BOUND:never-better-than-perfect", S.implies(S.isfin(out), out >= ps)))
        return goals
    return setup, call, post


for _name in sorted(TEXTBOOK):
    s, c, p = _formula(_name)
    register(Obligation("verif.metric.%s.compute_from_abcd#POST:formula" % _name, ("C06",), s, c, p, modules=MOD))


def _formula_missing(cls_name, kind, tag):
    """with an empty / all-missing table (four NaN or four masked counts) the score is missing, never a number"""
    cls = getattr(verif.metric, cls_name)

    def setup(G):
        return Bag(a=G.num("a", kinds=(kind,)), b=G.num("b", kinds=(kind,)), c=G.num("c", kinds=(kind,)), d=G.num("d", kinds=(kind,)))

    def call(inp):
        return cls().compute_from_abcd(inp.a, inp.b, inp.c, inp.d)

    def post(S, inp, out):
        return [("missing-table-gives-missing-score", S.ismissing(out))]
    return setup, call, post


for _name in sorted(TEXTBOOK):
    for _k, _t in ((NAN, "nan"), (MASKED, "masked")):
        s, c, p = _formula_missing(_name, _k, _t)
        o = register(Obligation("verif.metric.%s.compute_from_abcd#POST:%s-table" % (_name, _t), ("C06", "C04"), s, c, p, modules=MOD,
                                functions=["verif.metric.%s.compute_from_abcd" % _name]))
        o.no_replay = True
