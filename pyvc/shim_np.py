"""pyvc.shim_np -- the object bound to the module-global name `np` of the module under verification.

Every function accepts real ndarrays / Python numbers (delegated to the installed NumPy) and
symbolic proxies (where it implements the ASSUMED contract of the NumPy function; each use is
recorded in CTX.assumed and listed in the evidence).  A NumPy function that has no model here
raises Unsupported when it meets a proxy: the run is then undecided, never a violation.
"""
import numpy as _np
import z3

from . import sym
from .sym import (CTX, SNum, SBool, SArr, Unsupported, FIN, NAN, PINF, NINF, MASKED, And, Or, Not, Ite, bz, zeq,
                  WhereResult, WhereComp, use)


def is_sym(x):
    return isinstance(x, (SNum, SBool, SArr, WhereResult, WhereComp))


def any_sym(args, kwargs=None):
    for a in args:
        if is_sym(a) or isinstance(a, sym.Shape):
            return True
        if isinstance(a, (list, tuple)) and any(is_sym(b) for b in a):
            return True
    if kwargs:
        return any_sym(list(kwargs.values()))
    return False


def _dt(dtype):
    """the builtin shadows used as dtypes (np.zeros(n, float)) mean the builtins"""
    if dtype is sh_float:
        return float
    if dtype is sh_int:
        return int
    return dtype


class _NdarrayMeta(type):
    def __instancecheck__(cls, obj):
        return isinstance(obj, (_np.ndarray, SArr))


class ndarray(metaclass=_NdarrayMeta):
    pass


def _elementwise1(name, fnum, dtype="float"):
    real = getattr(_np, name)

    def f(x, *a, **k):
        if isinstance(x, SArr):
            use("np." + name)
            g = x._snapshot()
            return x._like(lambda idx: fnum(g(idx)), dtype)
        if isinstance(x, (SNum, SBool)):
            use("np." + name)
            return fnum(x)
        return real(x, *a, **k)
    f.__name__ = name
    return f


def _isnan_elem(e):
    if isinstance(e, SBool):
        return SBool(False)
    e = SNum.lift(e)
    # np.isnan(np.ma.masked) is masked (falsy)
    return SBool(bz(e.isnan_raw()))


def _isinf_elem(e):
    if isinstance(e, SBool):
        return SBool(False)
    e = SNum.lift(e)
    return SBool(bz(e.isinf()))


def _isfinite_elem(e):
    if isinstance(e, SBool):
        return SBool(True)
    e = SNum.lift(e)
    return SBool(bz(e.isfin()))


def _num(e):
    return e.num() if isinstance(e, SBool) else SNum.lift(e)


class _MA(object):
    masked = _np.ma.masked

    @staticmethod
    def masked_array(data, mask=None, **k):
        if not any_sym((data, mask)):
            return _np.ma.masked_array(data, mask=mask, **k)
        use("np.ma.masked_array")
        if not isinstance(data, SArr):
            raise Unsupported("masked_array of concrete data with symbolic mask")
        if isinstance(mask, SArr):
            data._aligned(mask)
            mg = mask._snapshot()
            m = lambda idx: mg(idx).z
        elif mask is None or mask is False:
            m = None
        else:
            raise Unsupported("mask %r" % (mask,))
        return SArr(data.axes, data._snapshot(), data.dtype, data.sel, m, flat=data.flat)

    @staticmethod
    def filled(a, fill_value=None):
        if not is_sym(a):
            return _np.ma.filled(a, fill_value=fill_value)
        use("np.ma.filled")
        if fill_value is None:
            # numpy.ma.filled(a) uses the array's own fill value (netCDF4 sets it from _FillValue / missing_value)
            fill_value = getattr(a, "fill_value", None)
            if fill_value is None:
                raise Unsupported("np.ma.filled without fill_value on a masked array whose own fill value is not modelled")
        if isinstance(a, SNum):
            fv = SNum.lift(fill_value)
            return SNum(Ite(bz(a.ismasked()), fv.k, a.k), Ite(bz(a.ismasked()), fv.rv(), a.rv()))
        if a.mask is None:
            return a.copy()
        g, m = a._snapshot(), a.mask
        if a.dtype == "bool":
            # np.ma.filled keeps the dtype: the fill value is cast to bool (bool(nan) is True, bool(0) is False)
            fb = _np.bool_(fill_value)
            fill = SBool(bool(fb))
            return SArr(a.axes, lambda idx: SBool(sym.Ite(bz(m(idx)), fill.z, g(idx).z)), "bool", a.sel, None, flat=a.flat)
        fv = SNum.lift(fill_value)
        return SArr(a.axes, lambda idx: sym.elem_ite(bz(m(idx)), fv, g(idx)), a.dtype, a.sel, None, flat=a.flat)

    @staticmethod
    def sum(a, axis=None, **kw):
        if not is_sym(a):
            return _np.ma.sum(a, axis=axis)
        use("np.ma.sum")
        return sym.arr_sum(a, axis)

    @staticmethod
    def mean(a, axis=None, **kw):
        if not is_sym(a):
            return _np.ma.mean(a, axis=axis)
        return sym.arr_mean(a, axis)


class _Errstate(object):
    def __init__(self, **k):
        self._e = _np.errstate(**k)

    def __enter__(self):
        return self._e.__enter__()

    def __exit__(self, *a):
        return self._e.__exit__(*a)


class CorrMatrix(object):
    """result of np.corrcoef(x, y): only [1, 0] / [0, 1] are used by the code"""
    def __init__(self, r):
        self.r = r

    def __getitem__(self, key):
        if key in ((1, 0), (0, 1)):
            return self.r
        if key in ((0, 0), (1, 1)):
            return SNum(FIN, 1)
        raise Unsupported("corrcoef()[%r]" % (key,))


class NpShim(object):
    nan = _np.nan
    inf = _np.inf
    pi = _np.pi
    ndarray = ndarray
    ma = _MA()
    float32 = _np.float32
    float64 = _np.float64
    errstate = _Errstate
    random = _np.random
    newaxis = _np.newaxis

    def __getattr__(self, name):
        real = getattr(_np, name)
        if not callable(real):
            return real

        def guard(*a, **k):
            if any_sym(a, k):
                raise Unsupported("np.%s has no symbolic model" % name)
            return real(*a, **k)
        guard.__name__ = name
        return guard

    # ---- predicates
    isnan = staticmethod(_elementwise1("isnan", _isnan_elem, "bool"))
    isinf = staticmethod(_elementwise1("isinf", _isinf_elem, "bool"))
    isfinite = staticmethod(_elementwise1("isfinite", _isfinite_elem, "bool"))
    abs = staticmethod(_elementwise1("abs", lambda e: sym.num_abs(_num(e))))
    sqrt = staticmethod(_elementwise1("sqrt", lambda e: sym.num_sqrt(_num(e))))
    log = staticmethod(_elementwise1("log", lambda e: sym.num_log(_num(e), "ln")))
    log2 = staticmethod(_elementwise1("log2", lambda e: sym.num_log(_num(e), "log2")))
    exp = staticmethod(_elementwise1("exp", lambda e: sym.num_exp(_num(e))))

    @staticmethod
    def where(cond, *a):
        if a:
            if any_sym((cond,) + a):
                raise Unsupported("three-argument np.where on proxies")
            return _np.where(cond, *a)
        if isinstance(cond, SArr):
            use("np.where")
            if cond.dtype != "bool":
                g = cond._snapshot()
                cond = cond._like(lambda idx: SBool(sym._truthy(g(idx))), "bool")
            # np.where on a masked array looks at the data only
            return WhereResult(cond)
        if isinstance(cond, (SBool, SNum)):
            raise Unsupported("np.where of a symbolic scalar")
        return _np.where(cond)

    @staticmethod
    def zeros(shape, dtype=float):
        dtype = _dt(dtype)
        if any_sym((shape,)):
            use("np.zeros")
            if dtype in (bool, "bool"):
                return _like_shape(shape, False, "bool")
            if dtype in (int, "int"):
                return _like_shape(shape, 0, "int")
            return _like_shape(shape, 0.0, "float")
        return _np.zeros(shape, dtype)

    @staticmethod
    def ones(shape, dtype=float):
        dtype = _dt(dtype)
        if any_sym((shape,)):
            use("np.ones")
            return _like_shape(shape, 1.0, "float")
        return _np.ones(shape, dtype)

    @staticmethod
    def array(x, dtype=None, **k):
        dtype = _dt(dtype)
        if isinstance(x, SArr):
            use("np.array")
            c = x.copy()
            if dtype in (float, "float"):
                c = c.astype(float)
            return c
        if isinstance(x, (SNum, SBool)):
            return x
        if any_sym((x,)):
            if isinstance(x, list) and all(isinstance(e, (SNum, SBool, int, float)) for e in x):
                return list(x)       # a short list of scalars stays a list of scalars (element access only)
            raise Unsupported("np.array of a list of proxies")
        return _np.array(x, dtype, **k) if dtype is not None else _np.array(x, **k)

    @staticmethod
    def asarray(x, dtype=None, **k):
        dtype = _dt(dtype)
        if isinstance(x, SArr):
            use("np.asarray")
            # the underlying data of a (masked) array, without copying: same store, no mask
            out = SArr(x.axes, None, x.dtype, x.sel, None, store=x.store, flat=x.flat, tmap=x.tmap)
            if dtype in (float, "float") and x.dtype != "float":
                return out.astype(float)
            return out
        if isinstance(x, (SNum, SBool)):
            return x
        if any_sym((x,)):
            raise Unsupported("np.asarray of a list of proxies")
        return _np.asarray(x, dtype, **k) if dtype is not None else _np.asarray(x, **k)

    # ---- reductions
    @staticmethod
    def sum(a, axis=None, **kw):
        if not is_sym(a):
            return _np.sum(a, axis=axis, **kw)
        use("np.sum")
        return sym.arr_sum(a, axis)

    @staticmethod
    def nansum(a, axis=None, **kw):
        if not is_sym(a):
            return _np.nansum(a, axis=axis)
        use("np.nansum")
        return sym.arr_sum(a, axis, skip_nan=True)

    @staticmethod
    def mean(a, axis=None, **kw):
        if not is_sym(a):
            return _np.mean(a, axis=axis, **kw)
        use("np.mean")
        if isinstance(a, (SNum, SBool)):
            return _num(a)
        return sym.arr_mean(a, axis)

    @staticmethod
    def nanmean(a, axis=None, **kw):
        if not is_sym(a):
            return _np.nanmean(a, axis=axis, **kw)
        use("np.nanmean")
        return sym.arr_mean(a, axis, skip_nan=True)

    @staticmethod
    def var(a, axis=None, **kw):
        if not is_sym(a):
            return _np.var(a, axis=axis)
        use("np.var")
        if axis is not None:
            return sym.along_axis(a, axis, lambda sub: NpShim.var(sub))
        m = sym.arr_mean(a)
        return sym.arr_mean((a - m) ** 2)

    @staticmethod
    def std(a, axis=None, **kw):
        if not is_sym(a):
            return _np.std(a, axis=axis)
        use("np.std")
        if axis is not None and isinstance(a, SArr) and len(a.axes) > 1:
            return sym.along_axis(a, axis, lambda sub: sym.num_sqrt(NpShim.var(sub)))
        return sym.num_sqrt(NpShim.var(a, axis))

    @staticmethod
    def corrcoef(x, y=None):
        if not any_sym((x, y)):
            return _np.corrcoef(x, y)
        use("np.corrcoef")
        mx, my = sym.arr_mean(x), sym.arr_mean(y)
        dx, dy = x - mx, y - my
        cov = sym.arr_sum(dx * dy)
        vx = sym.arr_sum(dx ** 2)
        vy = sym.arr_sum(dy ** 2)
        # R8 (Cauchy-Schwarz, lean/Reductions.lean): cov^2 <= vx*vy for finite data
        CTX.facts.append(z3.Implies(z3.And(bz(cov.isfin()), bz(vx.isfin()), bz(vy.isfin())),
                                    cov.rv() * cov.rv() <= vx.rv() * vy.rv()))
        use("lean:R8")
        r = cov / sym.num_sqrt(vx * vy)
        return CorrMatrix(r)

    # opaque functionals of an array (congruent in their argument)
    @staticmethod
    def _functional(name, a, params=(), axis=None):
        use("np." + name)
        if axis is not None and isinstance(a, SArr) and (len(a.axes) > 1):
            return sym.along_axis(a, axis, lambda sub: sym.fn_atom(name, sub, params))
        return sym.fn_atom(name, a, params)

    @staticmethod
    def median(a, axis=None, **kw):
        if not is_sym(a):
            return _np.median(a, axis=axis)
        return NpShim._functional("median", a, (), axis)

    @staticmethod
    def min(a, axis=None, **kw):
        if not is_sym(a):
            return _np.min(a, axis=axis)
        return NpShim._functional("min", a, (), axis)

    @staticmethod
    def max(a, axis=None, **kw):
        if not is_sym(a):
            return _np.max(a, axis=axis)
        return NpShim._functional("max", a, (), axis)

    @staticmethod
    def percentile(a, q, axis=None, **k):
        if not any_sym((a, q)):
            return _np.percentile(a, q, axis=axis, **k)
        if is_sym(q):
            raise Unsupported("symbolic percentile level")
        return NpShim._functional("percentile", a, (float(q),), axis)

    @staticmethod
    def quantile(a, q, axis=None, method="linear", **k):
        if not any_sym((a, q)):
            return _np.quantile(a, q, axis=axis, method=method, **k)
        if is_sym(q):
            raise Unsupported("symbolic quantile level")
        return NpShim._functional("quantile", a, (float(q), method), axis)

    @staticmethod
    def nan_to_num(a, **k):
        if not is_sym(a):
            return _np.nan_to_num(a, **k)
        use("np.nan_to_num")
        big = z3.RealVal("179769313486231570000000000000000000000000000000000000000000000000000000000000000000000000000000000000000000000000000000000000000000000000000000000000000000000000000000000000000000000000000000000000000000000000000000000000000000000000000000000000000000000000000000000000000000000000000000000000000")

        def f(e):
            e = _num(e)
            v = sym.Ite(bz(e.isfin()), e.rv(), sym.Ite(bz(e.ispinf()), big, sym.Ite(bz(e.isninf()), -big, z3.RealVal(0))))
            return SNum(FIN, v)
        if isinstance(a, SArr):
            g = a._snapshot()
            return a._like(lambda idx: f(g(idx)), "float")
        return f(a)

    @staticmethod
    def cumsum(a, axis=None, **k):
        if not is_sym(a):
            return _np.cumsum(a, axis=axis, **k)
        use("np.cumsum")
        if axis is None:
            if len(a.axes) != 1:
                raise Unsupported("cumsum of a flattened multi-dimensional proxy")
            axis = 0
        if axis < 0:
            axis += len(a.axes)
        g, sel, msk = a._snapshot(), a.sel, a.mask
        if sel is not None or msk is not None:
            raise Unsupported("cumsum of a filtered / masked proxy")
        inner = a.axes[axis]
        memo = {}

        def get(idx):
            key = tuple(i.get_id() for i in idx)
            if key not in memo:
                i0 = idx[axis]
                sub = SArr((inner,), lambda j: g(tuple(idx[:axis]) + (j[0],) + tuple(idx[axis + 1:])), a.dtype, lambda j: j[0] <= i0, None)
                memo[key] = sym.arr_sum(sub)
            return memo[key]
        return SArr(a.axes, get, "float")

    @staticmethod
    def sort(a, axis=-1, **k):
        if not is_sym(a):
            return _np.sort(a, axis=axis, **k)
        if CTX.set_theory and a.ndim == 1:
            use("np.sort(set-like)")
            from . import setarr
            return setarr.sort(a)
        use("np.sort")
        if a.ndim != 1:
            raise Unsupported("np.sort of a multi-dimensional proxy")
        probe = sym._elem_num(a._snapshot()(sym._fresh_idx(a.axes, "p")))
        kinds = (FIN,) if probe.isfin() is True else (FIN, NAN, PINF, NINF)
        return sym.arrfn_atom("sort", a, (), kinds)

    @staticmethod
    def histogram(a, bins=10, *args, **k):
        """np.histogram(values, edges)[0][k] = number of values v with edges[k] <= v < edges[k+1] (the last bin also holds
        v = edges[-1]); values outside all bins and NaN are counted nowhere (assumed contract, explicit ascending edges only).
        The counts come back as a NumPy object array of count atoms, so the arithmetic that follows is NumPy's own."""
        if not is_sym(a):
            return _np.histogram(a, bins, *args, **k)
        if args or k or not isinstance(bins, _np.ndarray) or bins.ndim != 1 or len(bins) < 2 or not _np.all(_np.diff(bins) > 0):
            raise Unsupported("np.histogram of a proxy needs explicit, concrete, ascending bin edges")
        if a.ndim != 1 and not a.flat:
            raise Unsupported("np.histogram of a multi-dimensional proxy")
        use("np.histogram")
        edges = [float(e) for e in bins]
        B = len(edges) - 1
        g, sel = a._snapshot(), a.sel
        counts = _np.empty(B, dtype=object)
        for kk in range(B):
            def cond(idx, lo=edges[kk], hi=edges[kk + 1], last=(kk == B - 1)):
                e = sym._elem_num(g(idx))
                inside = sym.And((e >= lo).z, (e <= hi).z if last else (e < hi).z)
                return sym.And(sel(idx) if sel else True, inside)
            counts[kk] = sym.count_atom(a.axes, cond)
        return counts, bins

    @staticmethod
    def unique(a, *args, **k):
        if not is_sym(a):
            return _np.unique(a, *args, **k)
        if args or k or not CTX.set_theory:
            raise Unsupported("np.unique of a proxy (only the plain one-dimensional form, under the set theory)")
        use("np.unique(set-like)")
        from . import setarr
        return setarr.unique(a)

    @staticmethod
    def intersect1d(a, b, *args, **k):
        if not any_sym((a, b)):
            return _np.intersect1d(a, b, *args, **k)
        if args or k or not CTX.set_theory:
            raise Unsupported("np.intersect1d of proxies (only the plain form, under the set theory)")
        use("np.intersect1d(set-like)")
        from . import setarr
        return setarr.intersect1d(a, b)

    @staticmethod
    def isin(x, r, *args, **k):
        if not any_sym((x, r)):
            return _np.isin(x, r, *args, **k)
        if args or k or not CTX.set_theory or not isinstance(x, SArr):
            raise Unsupported("np.isin of proxies (only the plain form, under the set theory)")
        use("np.isin(set-like)")
        from . import setarr
        return setarr.isin(x, r)

    @staticmethod
    def searchsorted(a, v, side="left", **k):
        """np.searchsorted(np.sort(x), v): the number of elements of x below (side='left') / at or below (side='right') v.
        Assumed contract, valid because `a` is known to be the ascending rearrangement of a finite, NaN-free array x."""
        if not any_sym((a, v)):
            return _np.searchsorted(a, v, side=side, **k)
        use("np.searchsorted")
        src = None
        for at in CTX.atoms:
            if at.kind == "afn:sort" and at.const is a:
                src = at
        if src is None or not isinstance(v, SArr):
            raise Unsupported("np.searchsorted on an array that is not a known np.sort(...) result")
        (ssel, sget), = src.fn
        ax = src.axes[0]
        vg = v._snapshot()
        memo = {}

        def get(idx):
            key = tuple(i.get_id() for i in idx)
            if key not in memo:
                x = sym._elem_num(vg(idx))

                def cond(j):
                    e = sym._elem_num(sget(j))
                    c = (e <= x).z if side == "right" else (e < x).z
                    return And(ssel(j) if ssel else True, c)
                memo[key] = sym.count_atom((ax,), cond)
            return memo[key]
        return SArr(v.axes, get, "int", v.sel, None, flat=v.flat)

    @staticmethod
    def isclose(a, b, **k):
        if not any_sym((a, b)):
            return _np.isclose(a, b, **k)
        raise Unsupported("np.isclose on proxies")


def _like_shape(shape, value, dtype):
    """np.zeros/ones(shape): shape must be x.shape or len(x) of a symbolic array x -> same index domain"""
    src = None
    if isinstance(shape, (list, tuple)) and not isinstance(shape, sym.Shape) and len(shape) > 1:
        # [len(x), F, ...]: symbolic extents are lengths of known one-dimensional arrays, concrete ones get new axes
        axes = []
        for e in shape:
            if isinstance(e, SNum) and e.src is not None and len(e.src.axes) == 1 and e.src.sel is None:
                axes.append(e.src.axes[0])
            elif isinstance(e, int):
                axes.append(sym.Axis("c%d!%d" % (e, next(CTX.counter)), e))
            else:
                raise Unsupported("np.zeros with a symbolic extent that is not the length of a known array")
        v = SBool(bool(value)) if dtype == "bool" else SNum.lift(value)
        return SArr(tuple(axes), lambda idx: v, dtype)
    if isinstance(shape, sym.Shape):
        src = shape.src
    elif isinstance(shape, SNum) and shape.src is not None:
        src = shape.src
    elif isinstance(shape, (list, tuple)) and len(shape) == 1 and isinstance(shape[0], SNum) and shape[0].src is not None:
        src = shape[0].src
    if src is None:
        raise Unsupported("np.zeros/ones with a symbolic size that is not the shape of a known array")
    v = SBool(bool(value)) if dtype == "bool" else SNum.lift(value)
    return SArr(src.axes, lambda idx: v, dtype, src.sel, None, flat=src.flat)


np_shim = NpShim()


class _ScipyStats(object):
    """scipy.stats: rank correlations are uninterpreted functionals of the two arrays (assumed contract A2)"""
    def __getattr__(self, name):
        import scipy.stats as _st
        return getattr(_st, name)

    @staticmethod
    def spearmanr(a, b=None, **k):
        import scipy.stats as _st
        if not any_sym((a, b)):
            return _st.spearmanr(a, b, **k)
        use("scipy.stats.spearmanr")
        return (sym.fn_atom("spearmanr", (a, b)), None)

    @staticmethod
    def kendalltau(a, b=None, **k):
        import scipy.stats as _st
        if not any_sym((a, b)):
            return _st.kendalltau(a, b, **k)
        use("scipy.stats.kendalltau")
        return (sym.fn_atom("kendalltau", (a, b)), None)


class _Norm(object):
    """scipy.stats.norm: the quantile function is uninterpreted (strictly increasing: instances added per pair)"""
    def __getattr__(self, name):
        import scipy.stats as _st
        return getattr(_st.norm, name)

    @staticmethod
    def ppf(q, *a, **k):
        import scipy.stats as _st
        if not is_sym(q):
            return _st.norm.ppf(q, *a, **k)
        use("scipy.stats.norm.ppf")
        q = SNum.lift(q)
        return SNum(FIN, sym._app("ppf", q.rv()))


_ScipyStats.norm = _Norm()


class _ScipyShim(object):
    stats = _ScipyStats()

    def __getattr__(self, name):
        import scipy as _sp
        return getattr(_sp, name)


scipy_shim = _ScipyShim()


# --------------------------------------------------------------------------------------------
# builtin shadows (bound as module globals next to `np`)
# --------------------------------------------------------------------------------------------
import builtins as _b


def sh_len(x):
    if isinstance(x, SArr):
        return x.shape[0]
    if isinstance(x, WhereComp):
        return x._count()
    if isinstance(x, GenericRange):
        # len(range(lo, hi)) = max(0, hi - lo)
        lo, hi = sym._toint(x.lo.v), sym._toint(x.hi.v)
        return SNum(FIN, z3.If(hi > lo, hi - lo, 0), is_int=True, is_numpy=False)
    return _b.len(x)


def sh_float(x=0.0):
    if isinstance(x, SNum):
        return SNum(x.k, x.rv() if not isinstance(x.k, int) or x.k == FIN else x.v, is_int=False, is_numpy=False)
    if isinstance(x, SBool):
        n = x.num()
        return SNum(FIN, n.rv(), is_numpy=False)
    return _b.float(x)


def sh_int(x=0, *a):
    if isinstance(x, SNum):
        return sym.num_floor_to_int(x)
    if isinstance(x, SBool):
        return x.num()
    return _b.int(x, *a)


def sh_abs(x):
    return _b.abs(x)


def sh_sum(x, *a):
    if isinstance(x, SArr):
        return sym.arr_sum(x)
    return _b.sum(x, *a)


def sh_isinstance(x, t):
    return _b.isinstance(x, t)


class GenericRange(object):
    """range() with a symbolic bound: the body is executed once, at a generic index k with lo <= k < hi
    (map loop, DESIGN 2.4-2).  The loop is recorded so the contract can speak about 'element k'."""
    def __init__(self, lo, hi):
        self.lo, self.hi = SNum.lift(lo), SNum.lift(hi)

    def __iter__(self):
        lo, hi = sym._toint(self.lo.v), sym._toint(self.hi.v)
        if not CTX.engine.decide(hi > lo):
            CTX.loops.append((None, lo, hi))
            return
        k = CTX.fresh("k", "int")
        CTX.facts.append(z3.And(k >= lo, k < hi))
        CTX.loops.append((k, lo, hi))
        # a loop over the positions of a known axis: k is an index term of that axis
        if not z3.is_int_value(z3.simplify(hi)):
            for a in CTX.all_axes:
                if a.size.v.eq(hi):
                    a.note_index(k)
                    break
        yield SNum(FIN, k, is_int=True, is_numpy=False)

    def as_sel(self):
        return sym.RangeSel(sym._toint(self.lo.v), sym._toint(self.hi.v))


def sh_range(*a):
    if any(isinstance(x, (SNum,)) for x in a):
        use("loop:generic-index")
        if len(a) == 1:
            return GenericRange(0, a[0])
        if len(a) == 2:
            return GenericRange(a[0], a[1])
        raise Unsupported("range with a step and symbolic bounds")
    return _b.range(*a)


def sh_enumerate(x, start=0):
    if isinstance(x, SArr):
        use("loop:generic-index")
        if len(x.axes) != 1 or x.sel is not None or x.mask is not None:
            raise Unsupported("enumerate() of a filtered / masked / multi-dimensional symbolic array")

        def gen():
            for k in GenericRange(0, x.axes[0].size):
                yield (k if start == 0 else k + start), x[k]
        return gen()
    return _b.enumerate(x, start)


BUILTIN_SHADOWS = {"len": sh_len, "float": sh_float, "int": sh_int, "sum": sh_sum, "range": sh_range, "enumerate": sh_enumerate}
