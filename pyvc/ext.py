"""EXT obligations: every attribute chain rooted at an imported module inside a function under contract
(np.in1d, scipy.stats.spearmanr, verif.util.error, ...) must resolve in the installed environment.
Concrete and cheap; the only thing checked about dependencies besides the differential cross-check."""
import ast
import inspect
import textwrap
import types

from . import framework


def attribute_chains(fn):
    src = textwrap.dedent(inspect.getsource(fn))
    tree = ast.parse(src)
    chains = set()

    class V(ast.NodeVisitor):
        def visit_Attribute(self, node):
            parts = []
            n = node
            while isinstance(n, ast.Attribute):
                parts.append(n.attr)
                n = n.value
            if isinstance(n, ast.Name):
                parts.append(n.id)
                chains.add(tuple(reversed(parts)))
            else:
                self.generic_visit(node)
    V().visit(tree)
    return sorted(chains)


def unresolved(fn):
    g = getattr(fn, "__globals__", None)
    if g is None:
        g = inspect.unwrap(fn).__globals__
    bad = []
    for chain in attribute_chains(fn):
        root = g.get(chain[0])
        if not isinstance(root, types.ModuleType):
            continue
        obj = root
        for i, a in enumerate(chain[1:], 1):
            try:
                obj = getattr(obj, a)
            except AttributeError:
                bad.append(".".join(chain[:i + 1]))
                break
            if not isinstance(obj, (types.ModuleType, type)) and not callable(obj):
                break
            if not isinstance(obj, types.ModuleType):
                # attributes of classes/functions/instances are not followed further
                break
    return bad


def register_ext(qualname, getter, props):
    """getter() -> the real function object (looked up at run time, so a scratch copy is honoured)"""
    def runner(o, timeout_ms=0, second=False):
        import time
        t0 = time.time()
        res = framework.ObResult(o.name)
        fn = getter()
        if isinstance(fn, (staticmethod, classmethod)):
            fn = fn.__func__
        bad = unresolved(fn)
        res.paths = 1
        g = framework.GoalResult("every-module-attribute-resolves", "unsat" if not bad else "sat", time.time() - t0, backend="python-getattr", path=1,
                                 note=", ".join(bad))
        res.goals.append(g)
        res.status = "discharged" if not bad else "refuted"
        if bad:
            res.witness = {"_unresolved": bad}
            res.replay = {"outcome": "raise", "observed": "AttributeError: " + ", ".join(bad), "failed": ["every-module-attribute-resolves"]}
            res.note = "unresolved: " + ", ".join(bad)
        res.seconds = time.time() - t0
        return res
    o = framework.Obligation(qualname + "#EXT:module-attributes-resolve", props, None, None, None, kind="EXT", functions=[qualname])
    o.runner = runner
    o.no_unroll = True
    framework.register(o)
    return o
