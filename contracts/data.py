"""Contracts for verif/data.py: Data._get_score / Data.get_scores / _apply_axis on a ghost Data object
(C01 fair comparison, C02 gather by own coordinates, C03 obs range, C04 validity mask, C14 climatology,
C18 history independence), EXT obligations, and bounded stand-ins for _get_common_indices and __init__."""
import itertools
import os

import numpy as _np

import verif.data
import verif.input
import verif.field
import verif.axis
import verif.aggregator
import verif.variable

from pyvc import ext, sym
from pyvc.framework import Obligation, register, Bag, FIN, NAN, PINF, NINF, ALL_KINDS, bounded_obligation

MOD = [verif.data, verif.input, verif.util]
DATA_PROPS = ("C01", "C02", "C03", "C14", "C18")

for _name in ("__init__", "get_scores", "_get_score", "_get_common_indices", "_apply_axis", "get_axis_values",
              "get_axis_descriptions", "preaggregate", "_get_times", "_get_leadtimes", "_get_locations"):
    ext.register_ext("verif.data.Data.%s" % _name, (lambda n=_name: verif.data.Data.__dict__[n]), DATA_PROPS)
for _name in ("preaggregate_time", "preaggregate_leadtime"):
    ext.register_ext("verif.data.%s" % _name, (lambda n=_name: getattr(verif.data, n)), ("C15",))


# ----------------------------------------------------------------------------------------------
# ghost dataset
# ----------------------------------------------------------------------------------------------
class StubInput(verif.input.Input):
    """an input whose arrays are given; subclass of the real Input so the real get_fields() runs"""
    def __init__(self, name, obs, fcst, other=None, prob=None):
        self.fullname = name
        self.obs = obs
        self.fcst = fcst
        self.pit = None
        self.ensemble = None
        self.thresholds = _np.array([])
        self.quantiles = _np.array([])
        if prob is not None:
            self.pit = prob.get("pit")
            self.ensemble = prob.get("ens")
            self.thresholds = _np.array(STORED_THRESHOLDS)
            self.quantiles = _np.array(STORED_QUANTILES)
            self.threshold_scores = prob.get("cdf")
            self.quantile_scores = prob.get("x")
        self._other = other or {}
        self.other_fields = list(self._other.keys())
        self.times = None
        self.leadtimes = None
        self.locations = []
        self.variable = verif.variable.Variable("ghost", "units")

    def other_score(self, name):
        return self._other[name]


STORED_THRESHOLDS = [0.5, 2.0]
STORED_QUANTILES = [0.1, 0.9]

TIME_AXES = ("Month", "Year", "Week", "Day", "Dayofyear", "Dayofmonth", "Monthofyear", "Timeofday")


_REAL_PREAGG = {"leadtime": verif.data.preaggregate_leadtime, "time": verif.data.preaggregate_time}


def preagg_stub(which):
    """contract stub of preaggregate_leadtime / preaggregate_time (their own contract: contracts/aggregator.py):
    an opaque array-valued function of the array, tagged with the coordinate vector it was given"""
    def stub(array, coords, aggregator, length):
        if isinstance(array, sym.SArr):
            return sym.arrfn_atom("preagg_" + which, array, (coords.axes[0].name,), kinds=(FIN, NAN))
        return _REAL_PREAGG[which](array, coords, aggregator, length)
    return stub


def preagg_patch(gh):
    import contextlib
    from pyvc import engine
    st = contextlib.ExitStack()
    st.enter_context(engine.patched(verif.data, preaggregate_leadtime=preagg_stub("leadtime"), preaggregate_time=preagg_stub("time")))
    return st


def ghost(G, n_inputs, has_obs=None, clim=None, obs_range=False, other=False, prob=False, ensemble=True, agg=None, min_members=1):
    """a Data object in the state Data.__init__ leaves it in (its index lists satisfy the postcondition of
    _get_common_indices, decided separately), with symbolic contents; nothing cached yet"""
    N = n_inputs + (1 if clim else 0)
    has_obs = has_obs or [True] * N
    # Data.__init__ aborts when an intersection is empty, so the common axes have at least one entry
    # (times emptied afterwards by -d/-tod are outside this ghost state; noted in DESIGN.md)
    CT, CL, CS = G.axis("ct", min_size=1), G.axis("cl", min_size=1), G.axis("cs", min_size=1)
    gh = Bag(N=N, n_inputs=n_inputs, clim=clim, raw={}, raw0={}, It=[], Il=[], Is=[], axes=(CT, CL, CS), has_obs=has_obs,
             other=other)
    inputs = []
    for i in range(N):
        T, L, Sx = G.axis("t%d" % i, min_size=1), G.axis("l%d" % i, min_size=1), G.axis("s%d" % i, min_size=1)
        obs = G.array("obs%d" % i, (T, L, Sx), kinds=ALL_KINDS) if has_obs[i] else None
        fcst = G.array("fcst%d" % i, (T, L, Sx), kinds=ALL_KINDS)
        oth = {"aux": G.array("aux%d" % i, (T, L, Sx), kinds=ALL_KINDS)} if other else {}
        gh.raw[(i, "obs")], gh.raw[(i, "fcst")] = obs, fcst
        gh.raw0[(i, "obs")] = obs.copy() if obs is not None else None
        gh.raw0[(i, "fcst")] = fcst.copy()
        if other:
            gh.raw[(i, "aux")] = oth["aux"]
            gh.raw0[(i, "aux")] = oth["aux"].copy()
        gh.It.append(G.array("It%d" % i, (CT,), dtype="int", bound_axis=T))
        gh.Il.append(G.array("Il%d" % i, (CL,), dtype="int", bound_axis=L))
        gh.Is.append(G.array("Is%d" % i, (CS,), dtype="int", bound_axis=Sx))
        pr = None
        if prob:
            E = G.axis("e%d" % i, min_size=min_members)      # Ensemble(m) requires a file with more than m members
            K = G.axis("k%d" % i, size=len(STORED_THRESHOLDS))
            Q = G.axis("q%d" % i, size=len(STORED_QUANTILES))
            pr = {"pit": G.array("pit%d" % i, (T, L, Sx), kinds=(FIN, NAN)),
                  "ens": G.array("ens%d" % i, (T, L, Sx, E), kinds=(FIN, NAN)) if ensemble else None,
                  "cdf": G.array("cdf%d" % i, (T, L, Sx, K), kinds=(FIN, NAN)),
                  "x": G.array("x%d" % i, (T, L, Sx, Q), kinds=(FIN, NAN))}
            for kk, vv in pr.items():
                gh.raw[(i, kk)] = vv
                gh.raw0[(i, kk)] = vv.copy() if vv is not None else None
        si = StubInput("in%d" % i, obs, fcst, oth, pr)
        if prob and i >= 1:
            # every input lists its stored thresholds / quantile levels in its own order (C02: matched by value, not by position)
            si.thresholds = _np.array(STORED_THRESHOLDS[::-1])
            si.quantiles = _np.array(STORED_QUANTILES[::-1])
        # the input's own coordinate vectors (any order, unless -T needs them ascending)
        si.leadtimes = G.array("leadtimes%d" % i, (L,), kinds=(FIN,), grid=[0.0, 1.0, 2.0, 3.0, 6.0])
        si.times = G.array("times%d" % i, (T,), kinds=(FIN,), grid=[0.0, 3600.0, 7200.0, 21600.0])
        if agg:
            G.assume_sorted(si.leadtimes)
            G.assume_sorted(si.times)
        inputs.append(si)
    d = object.__new__(verif.data.Data)
    d._remove_missing_across_all = True
    d._legend = None
    d._obs_field = verif.field.Obs()
    d._fcst_field = verif.field.Fcst()
    d._obs_range = None
    if obs_range:
        gh.lo, gh.hi = G.num("obs_lo"), G.num("obs_hi")
        d._obs_range = [gh.lo, gh.hi]
    d._inputs = inputs
    d._get_score_cache = [dict() for _ in range(N)]
    d._get_scores_cache = dict()
    d._clim = inputs[-1] if clim else None
    if clim:
        d._clim_type = clim
    d._timesI, d._leadtimesI, d._locationsI = gh.It, gh.Il, gh.Is
    d.num_inputs = n_inputs
    d.dim_agg_length = None
    d.dim_agg_axis = verif.axis.Leadtime()
    d.dim_agg_method = verif.aggregator.Mean()
    gh.agg = agg
    if agg:
        from .metric_det import DualAgg
        gh.h = G.num("h", integer=True, numpy=False, grid=[1, 2, 3])
        G.assume(gh.h > 0)
        d.dim_agg_length = gh.h
        d.dim_agg_axis = verif.axis.Leadtime() if agg == "leadtime" else verif.axis.Time()
        d.dim_agg_method = DualAgg()

        def pre(S, k, f, member=None):
            """input k's stored array for f after -T pre-aggregation with ITS OWN coordinate vector"""
            raw = gh.raw0[(k, f)]
            coords = inputs[k].leadtimes if agg == "leadtime" else inputs[k].times
            if member is not None:
                raw = raw[:, :, :, member]
            if S.symbolic:
                return sym.arrfn_atom("preagg_" + agg, raw, (coords.axes[0].name,), kinds=(FIN, NAN))
            return _REAL_PREAGG[agg](raw, coords, d.dim_agg_method, gh.h)
        gh.pre = pre
    d.variable = verif.variable.Variable("ghost", "units")
    # axis value caches (what axis.compute_from_times / leadtimes returned for the common coordinates; C11)
    d.axis_cache, d.axis_cache_unique = {}, {}
    gh.axis_vals, gh.axis_uniq = {}, {}
    for nm in ("Month", "Leadtimeday"):
        ax = getattr(verif.axis, nm)()
        dom = CT if nm == "Month" else CL
        vals = G.array("axv_" + nm, (dom,), kinds=(FIN,))
        uniq = G.array("axu_" + nm, ("u_" + nm,), kinds=(FIN,), min_size=1)
        d.axis_cache[ax], d.axis_cache_unique[ax] = vals, uniq
        gh.axis_vals[nm], gh.axis_uniq[nm] = vals, uniq
    d.axis_cache[verif.axis.Leadtime()] = d.axis_cache[verif.axis.Leadtimeday()]      # any lead-time axis: same mechanism
    d.axis_cache_unique[verif.axis.Leadtime()] = d.axis_cache_unique[verif.axis.Leadtimeday()]
    _complete_from_constructor(d, n_inputs, clim, has_obs, prob, other, agg)
    gh.data = d
    return gh


_TEMPLATE = {}


def _complete_from_constructor(d, n_inputs, clim, has_obs, prob, other, agg):
    """attributes that the real constructor sets but this ghost state does not know about (added by a later version of the code:
    a scratch buffer initialised to None, a cached number of inputs, ...) are taken, as deep copies, from an object built by the REAL
    Data.__init__ on a 1x1x1 dataset with the same number of inputs, the same climatology mode and the same -T settings: the
    ghost must not fail merely because the constructor grew an attribute.  (An attribute that depends on the array extents or
    contents would still be wrong here; none exists today.)"""
    import copy
    import contextlib
    import io
    import verif.location
    key = (id(verif.data.Data.__init__), n_inputs, clim, tuple(has_obs), bool(prob), bool(other), agg)
    if key not in _TEMPLATE:
        try:
            def tiny(name, with_obs):
                pr = None
                if prob:
                    pr = {"pit": _np.zeros([1, 1, 1]), "ens": _np.zeros([1, 1, 1, 2]), "cdf": _np.zeros([1, 1, 1, len(STORED_THRESHOLDS)]),
                          "x": _np.zeros([1, 1, 1, len(STORED_QUANTILES)])}
                si = StubInput(name, _np.zeros([1, 1, 1]) if with_obs else None, _np.zeros([1, 1, 1]), {"aux": _np.zeros([1, 1, 1])} if other else {}, pr)
                si.times, si.leadtimes = _np.array([0.0]), _np.array([0.0])
                si.locations = [verif.location.Location(0, 0, 0, 0)]
                return si
            ins = [tiny("tmpl%d" % i, has_obs[i]) for i in range(n_inputs)]
            kw = {}
            if clim:
                kw["clim"], kw["clim_type"] = tiny("tmplclim", has_obs[-1]), clim
            if agg:
                kw["dim_agg_length"] = 1
                kw["dim_agg_axis"] = verif.axis.Leadtime() if agg == "leadtime" else verif.axis.Time()
            with contextlib.redirect_stdout(io.StringIO()):
                _TEMPLATE[key] = dict(verif.data.Data(ins, **kw).__dict__)
        except BaseException:
            _TEMPLATE[key] = {}
    for k, v in _TEMPLATE[key].items():
        if k not in d.__dict__:
            try:
                setattr(d, k, copy.deepcopy(v))
            except Exception:
                pass


FIELDS = {"obs": verif.field.Obs, "fcst": verif.field.Fcst, "aux": lambda: verif.field.Other("aux"),
          "pit": verif.field.Pit,
          "thr0.5": lambda: verif.field.Threshold(0.5), "thr2": lambda: verif.field.Threshold(2.0), "thr1": lambda: verif.field.Threshold(1.0),
          "q0.1": lambda: verif.field.Quantile(0.1), "q0.5": lambda: verif.field.Quantile(0.5),
          "thr-1": lambda: verif.field.Threshold(-1.0), "thr-2": lambda: verif.field.Threshold(-2.0),
          "q0.9": lambda: verif.field.Quantile(0.9), "q0.25": lambda: verif.field.Quantile(0.25),
          "ens0": lambda: verif.field.Ensemble(0), "ens1": lambda: verif.field.Ensemble(1)}


# ----------------------------------------------------------------------------------------------
# the specification, pointwise (dual: symbolic SNum / concrete float)
# ----------------------------------------------------------------------------------------------
def _at3(S, arr, t, l, s):
    return S.at(arr, (t, l, s))


def source_input(gh, i, f):
    """which input's stored array serves input i for field f: its own, or -- for observations -- the first
    input that has observations ('a file lacking observations is scored against those of a file that has them')"""
    if f != "obs" or gh.has_obs[i]:
        return i
    for k in range(gh.N):
        if gh.has_obs[k]:
            return k
    return None


def _members(S, ens, own):
    """the ensemble of one case as a one-dimensional array (dual)"""
    if S.symbolic:
        g = ens._snapshot()
        z = tuple(_zi(j) for j in own)
        return sym.SArr((ens.axes[3],), lambda e: g(z + (e[0],)), "float")
    return _np.asarray(ens)[own[0], own[1], own[2], :]


def _zi(j):
    from pyvc.framework import _zidx
    return _zidx(j)


def gathered(S, gh, i, f, c):
    """input i's own stored value for the common case c = (t, l, s): looked up at ITS OWN indices (C02).
    Probabilistic fields (C08): a stored cumulative probability / quantile column if the file stores that level,
    otherwise derived from the ensemble: P(X <= t) = fraction of non-missing members at or below t; quantile of the members"""
    k = source_input(gh, i, f)
    t, l, s = c
    own = (S.at(gh.It[k], (t,)), S.at(gh.Il[k], (l,)), S.at(gh.Is[k], (s,)))
    if f in ("obs", "fcst", "aux", "pit"):
        if gh.get("agg"):
            return S.at(gh.pre(S, k, f), own)
        return S.at(gh.raw0[(k, f)], own)
    if f.startswith("thr"):
        thr = float(f[3:])
        if thr in STORED_THRESHOLDS and not gh.get("agg"):
            own_list = STORED_THRESHOLDS if k == 0 else STORED_THRESHOLDS[::-1]       # input k's own list (see ghost())
            return S.at(gh.raw0[(k, "cdf")], own + (own_list.index(thr),))
        mem = _members(S, gh.pre(S, k, "ens"), own) if gh.get("agg") else _members(S, gh.raw0[(k, "ens")], own)
        nvalid = S.count_where(mem, lambda e: S.not_(S.isnan(S.at(mem, e))))
        nbelow = S.sum_where(mem, lambda e: S.ite(S.and_(S.not_(S.isnan(S.at(mem, e))), S.at(mem, e) <= thr), 1.0, 0.0))
        return S.ite(S.same(nvalid, 0), S.nan, nbelow / S.to_num(nvalid))
    if f.startswith("q"):
        q = float(f[1:])
        if q in STORED_QUANTILES and not gh.get("agg"):
            own_list = STORED_QUANTILES if k == 0 else STORED_QUANTILES[::-1]
            return S.at(gh.raw0[(k, "x")], own + (own_list.index(q),))
        mem = _members(S, gh.pre(S, k, "ens"), own) if gh.get("agg") else _members(S, gh.raw0[(k, "ens")], own)
        return S.fn("quantile", mem, (q, "normal_unbiased"))
    if f.startswith("ens"):
        if gh.get("agg"):
            return S.at(gh.pre(S, k, "ens", member=int(f[3:])), own)
        return S.at(gh.raw0[(k, "ens")], own + (int(f[3:]),))
    raise ValueError(f)


def cached_spec(S, gh, j, f, c):
    """C01: missing wherever ANY input is missing for this field, otherwise input j's own value"""
    anymiss = S.or_(*[S.isnan(gathered(S, gh, i, f, c)) for i in range(gh.N)])
    return S.ite(anymiss, S.nan, gathered(S, gh, j, f, c))


def request_value(S, gh, j, f, c, fields):
    """the value field f contributes for case c in a request of `fields` for input j (before validity)"""
    x = cached_spec(S, gh, j, f, c)
    if f == "obs" and gh.data._obs_range is not None:
        x = S.ite(S.or_(x < gh.lo, x > gh.hi), S.nan, x)          # inclusive range; NaN compares false
    if gh.clim and f in ("obs", "fcst") and ("obs" in fields or "fcst" in fields):
        cl = cached_spec(S, gh, gh.N - 1, "fcst", c)
        x = (x - cl) if gh.clim == "subtract" else (x / cl)
    return x


def case_valid(S, gh, j, c, fields):
    return S.and_(*[S.isfin(request_value(S, gh, j, f, c, fields)) for f in fields])


# how an index tuple of a returned array maps to the common case (t, l, s)
def case_of(gh, out_axes, idx, axis_kind, k):
    CT, CL, CS = gh.axes
    pos = {ax: i for i, ax in enumerate(out_axes)}
    t = idx[pos[CT]] if CT in pos else k
    l = idx[pos[CL]] if CL in pos else k
    s = idx[pos[CS]] if CS in pos else k
    return (t, l, s)


def in_slice(S, gh, axis_kind, k, c):
    t, l, s = c
    if axis_kind == "month":
        return S.same(S.at(gh.axis_vals["Month"], (t,)), S.at(gh.axis_uniq["Month"], (k,)))
    if axis_kind in ("leadtimeday", "leadtime"):
        return S.same(S.at(gh.axis_vals["Leadtimeday"], (l,)), S.at(gh.axis_uniq["Leadtimeday"], (k,)))
    return True


AXES = {"time": verif.axis.Time, "month": verif.axis.Month, "leadtime": verif.axis.Leadtime, "leadtimeday": verif.axis.Leadtimeday,
        "location": verif.axis.Location, "lat": verif.axis.Lat, "no": verif.axis.No, "threshold": verif.axis.Threshold,
        "all": verif.axis.All}


def check_result(S, gh, j, fields, axis_kind, k, outs, label=""):
    """goals: every returned array holds exactly the valid cases of the slice, with the specified values"""
    goals = []
    if S.symbolic:
        sentinel = not isinstance(outs[0], sym.SArr)
        if sentinel:
            # the one-element NaN sentinel: legitimate only when the slice has no valid case
            CT, CL, CS = gh.axes
            sub = {"time": (CL, CS), "location": (CT, CL), "lat": (CT, CL)}.get(axis_kind, (CT, CL, CS))

            def novalid(idx):
                c = case_of(gh, sub, idx, axis_kind, k)
                return S.not_(S.and_(in_slice(S, gh, axis_kind, k, c), case_valid(S, gh, j, c, fields)))
            ok = all((not isinstance(o, sym.SArr)) and o.shape == (1,) and bool(_np.isnan(o[0])) for o in outs)
            return [(label + "one-nan-per-field-only-when-the-slice-has-no-valid-case", S.and_(ok, S.forall_axes(sub, novalid)))]
        for f, o in zip(fields, outs):
            def body(idx, f=f, o=o):
                c = case_of(gh, o.axes, idx, axis_kind, k)
                want_sel = S.and_(in_slice(S, gh, axis_kind, k, c), case_valid(S, gh, j, c, fields))
                x = request_value(S, gh, j, f, c, fields)
                if axis_kind == "all":
                    return S.same(o.at(idx), S.ite(case_valid(S, gh, j, c, fields), x, S.nan))
                return S.and_(S.iff(S.selected_at(o, idx), want_sel), S.implies(want_sel, S.same(o.at(idx), x)))
            goals.append((label + "field-%s:exactly-the-valid-cases-of-the-slice,with-own-values" % f, S.forall_axes(o.axes, body)))
        if axis_kind != "all":
            nvalid = S.count_where_axes(outs[0].axes, lambda idx: S.selected_at(outs[0], idx))
            goals.append((label + "non-empty", nvalid >= 1))
        return goals
    # concrete: sequences in flatten order
    T, L, Sn = [len(gh.It[0]), len(gh.Il[0]), len(gh.Is[0])]
    cases = [(t, l, s) for t in range(T) for l in range(L) for s in range(Sn)]
    if axis_kind != "all":
        sel = [c for c in cases if _conc_in_slice(S, gh, axis_kind, k, c) and case_valid(S, gh, j, c, fields)]
        for f, o in zip(fields, outs):
            want = [float(request_value(S, gh, j, f, c, fields)) for c in sel] or [float("nan")]
            goals.append((label + "field-%s:exactly-the-valid-cases-of-the-slice,with-own-values" % f, S.same_array(_np.asarray(o), _np.array(want))))
    else:
        for f, o in zip(fields, outs):
            want = _np.array([float(request_value(S, gh, j, f, c, fields)) if case_valid(S, gh, j, c, fields) else float("nan") for c in cases]).reshape(T, L, Sn)
            goals.append((label + "field-%s:exactly-the-valid-cases-of-the-slice,with-own-values" % f, S.same_array(_np.asarray(o), want)))
    return goals


def _inslice3(S, gh, axis_kind, k, c):
    t, l, s = c
    if axis_kind == "time":
        return S.same(sym.SNum(FIN, t, is_int=True), k)
    if axis_kind in ("location", "lat"):
        return S.same(sym.SNum(FIN, s, is_int=True), k)
    return in_slice(S, gh, axis_kind, k, c)


def _conc_in_slice(S, gh, axis_kind, k, c):
    t, l, s = c
    if axis_kind == "time":
        return t == k
    if axis_kind in ("location", "lat"):
        return s == k
    return bool(in_slice(S, gh, axis_kind, k, c))


def frame_goals(S, gh, label=""):
    """the input objects' data are left unmodified"""
    goals = []
    for (i, f), raw in gh.raw.items():
        if raw is None:
            continue
        r0 = gh.raw0[(i, f)]
        goals.append((label + "FRAME:input-%d-%s-not-modified" % (i, f), S.forall(r0, lambda idx, raw=raw, r0=r0: S.same(S.at(raw, idx), S.at(r0, idx)))))
    return goals


# ----------------------------------------------------------------------------------------------
# get_scores: one request on a fresh dataset
# ----------------------------------------------------------------------------------------------
def _slice_index(G, gh, axis_kind):
    if axis_kind in ("no", "threshold", "all"):
        return None
    k = G.num("k", integer=True, numpy=False)
    G.assume(k >= 0)
    CT, CL, CS = gh.axes
    if axis_kind == "time":
        G.assume(k < _size(G, gh.It[0]))
    elif axis_kind in ("location", "lat"):
        G.assume(k < _size(G, gh.Is[0]))
    elif axis_kind == "month":
        G.assume(k < _size(G, gh.axis_uniq["Month"]))
    else:
        G.assume(k < _size(G, gh.axis_uniq["Leadtimeday"]))
    return k


def _size(G, arr):
    return arr.shape[0] if hasattr(arr, "axes") else len(arr)


def _one_request(n_inputs, j, fields, axis_kind, has_obs=None, clim=None, obs_range=False, single=False, agg=None):
    other = "aux" in fields
    prob = any(f not in ("obs", "fcst", "aux") for f in fields)

    min_members = 1 + max([int(f[3:]) for f in fields if f.startswith("ens")] or [0])

    def setup(G):
        gh = ghost(G, n_inputs, has_obs=has_obs, clim=clim, obs_range=obs_range, other=other, prob=prob, agg=agg, min_members=min_members)
        gh.k = _slice_index(G, gh, axis_kind)
        return gh

    def call(gh):
        fl = [FIELDS[f]() for f in fields]
        req = fl[0] if single else fl
        return gh.data.get_scores(req, j, AXES[axis_kind](), gh.k)

    def post(S, gh, out):
        outs = [out] if single else list(out)
        goals = [("returns-one-array-per-requested-field-in-request-order", len(outs) == len(fields) and (single or isinstance(out, list)))]
        goals += check_result(S, gh, j, fields, axis_kind, gh.k, outs)
        goals += frame_goals(S, gh)
        return goals
    return setup, call, post


def _reg_request(name, props, *a, **kw):
    s, c, p = _one_request(*a, **kw)
    return register(Obligation("verif.data.Data.get_scores#POST:" + name, props, s, c, p, modules=MOD, patch=preagg_patch if kw.get("agg") else None,
                               functions=["verif.data.Data.get_scores", "verif.data.Data._get_score", "verif.data.Data._apply_axis"],
                               assumptions=["A5: observations of different inputs agree wherever both are present (the tool's documented assumption)",
                                            "ghost dataset: Data's index lists satisfy the contract of _get_common_indices (decided by its own obligations)"]))


_CORE = ("C01", "C02", "C04", "C18", "C05")       # C05: an empty slice reaches the metrics as the one-NaN sentinel
for _n in (1, 2, 3):
    for _j in range(_n):
        if _n == 3 and _j == 1:
            continue
        _reg_request("N=%d,input=%d,[obs,fcst],axis=time" % (_n, _j), _CORE, _n, _j, ("obs", "fcst"), "time")
_reg_request("N=2,input=1,[obs,fcst],axis=month", _CORE + ("C11",), 2, 1, ("obs", "fcst"), "month")
_reg_request("N=2,input=0,[obs,fcst],axis=leadtimeday", _CORE + ("C11",), 2, 0, ("obs", "fcst"), "leadtimeday")
_reg_request("N=2,input=1,[obs,fcst],axis=location", _CORE + ("C11",), 2, 1, ("obs", "fcst"), "location")
_reg_request("N=2,input=0,[obs,fcst],axis=no", _CORE, 2, 0, ("obs", "fcst"), "no")
_reg_request("N=2,input=0,[obs,fcst],axis=all", _CORE, 2, 0, ("obs", "fcst"), "all")
_reg_request("N=2,input=1,obs-single,axis=all", _CORE, 2, 1, ("obs",), "all", single=True)
_reg_request("N=2,input=0,fcst-single,axis=time", _CORE, 2, 0, ("fcst",), "time", single=True)
_reg_request("N=2,input=1,[fcst,aux,obs],axis=time", _CORE, 2, 1, ("fcst", "aux", "obs"), "time")
_reg_request("N=2,input=1,[obs,fcst],axis=time,input-1-has-no-obs", _CORE, 2, 1, ("obs", "fcst"), "time", has_obs=[True, False])
_reg_request("N=2,input=0,[obs,fcst],axis=time,input-0-has-no-obs", _CORE, 2, 0, ("obs", "fcst"), "time", has_obs=[False, True])
_reg_request("N=2,input=0,[obs,fcst],axis=time,obsrange", ("C03", "C04"), 2, 0, ("obs", "fcst"), "time", obs_range=True)
_reg_request("N=1,input=0,[obs,fcst],axis=no,obsrange", ("C03", "C04"), 1, 0, ("obs", "fcst"), "no", obs_range=True)
for _ct in ("subtract", "divide"):
    _reg_request("N=1+clim,input=0,[obs,fcst],axis=time,clim=%s" % _ct, ("C14", "C04", "C01"), 1, 0, ("obs", "fcst"), "time", clim=_ct)
    _reg_request("N=2+clim,input=1,[obs,fcst],axis=no,clim=%s" % _ct, ("C14", "C04", "C01"), 2, 1, ("obs", "fcst"), "no", clim=_ct)
_reg_request("N=1+clim,input=0,[fcst,aux],axis=time,clim=subtract", ("C14",), 1, 0, ("fcst", "aux"), "time", clim="subtract")
_reg_request("N=1+clim,input=0,[aux],axis=time,clim=subtract", ("C14",), 1, 0, ("aux",), "time", clim="subtract")
_reg_request("N=1+clim,input=0,[obs,fcst],axis=time,clim=subtract,obsrange", ("C14", "C03"), 1, 0, ("obs", "fcst"), "time", clim="subtract", obs_range=True)


_PROB = ("C08", "C01", "C04", "C07", "C02")
_reg_request("N=1,input=0,[obs,thr0.5],axis=time(stored-cdf-column)", _PROB, 1, 0, ("obs", "thr0.5"), "time")
_reg_request("N=2,input=1,[obs,thr0.5,thr2],axis=no(stored-cdf-columns)", _PROB, 2, 1, ("obs", "thr0.5", "thr2"), "no")
_reg_request("N=1,input=0,[obs,thr1],axis=time(probability-from-ensemble)", _PROB, 1, 0, ("obs", "thr1"), "time")
_reg_request("N=2,input=0,[obs,thr1],axis=no(probability-from-ensemble)", _PROB, 2, 0, ("obs", "thr1"), "no")
_reg_request("N=1,input=0,[obs,q0.1],axis=time(stored-quantile-column)", _PROB, 1, 0, ("obs", "q0.1"), "time")
_reg_request("N=1,input=0,[obs,q0.5],axis=time(quantile-from-ensemble)", _PROB, 1, 0, ("obs", "q0.5"), "time")
_reg_request("N=2,input=1,[q0.1,q0.5,fcst,obs],axis=no", _PROB, 2, 1, ("q0.1", "q0.5", "fcst", "obs"), "no")
_reg_request("N=2,input=0,pit-single,axis=time", _PROB, 2, 0, ("pit",), "time", single=True)
_reg_request("N=1,input=0,[ens0,obs],axis=time(ensemble-member)", _PROB, 1, 0, ("ens0", "obs"), "time")
_reg_request("N=1,input=0,[ens1,ens0],axis=time(two-ensemble-members)", _PROB, 1, 0, ("ens1", "ens0"), "time")
_reg_request("N=1,input=0,[q0.9,q0.1],axis=time(both-stored-quantile-columns)", _PROB, 1, 0, ("q0.9", "q0.1"), "time")
# (a level at which NumPy's interpolation methods differ; at 0.5 they all give the median)
_reg_request("N=1,input=0,[obs,q0.25],axis=time(quantile-from-ensemble,off-centre-level)", _PROB, 1, 0, ("obs", "q0.25"), "time")


_AGG = ("C15", "C08")
_reg_request("N=2,input=1,[obs,fcst],axis=time,-T-leadtime", _AGG, 2, 1, ("obs", "fcst"), "time", agg="leadtime")
_reg_request("N=1,input=0,[obs,fcst,aux],axis=no,-T-time", _AGG, 1, 0, ("obs", "fcst", "aux"), "no", agg="time")
_reg_request("N=2,input=0,[obs,fcst],axis=time,-T-leadtime,input-0-has-no-obs", _AGG, 2, 0, ("obs", "fcst"), "time", has_obs=[False, True], agg="leadtime")
_reg_request("N=1,input=0,[obs,thr1],axis=time,-T-leadtime(probability-from-aggregated-ensemble)", _AGG, 1, 0, ("obs", "thr1"), "time", agg="leadtime")
_reg_request("N=1,input=0,[obs,thr0.5],axis=time,-T-leadtime(stored-cdf-not-used-under--T)", _AGG, 1, 0, ("obs", "thr0.5"), "time", agg="leadtime")
_reg_request("N=1,input=0,[obs,q0.5],axis=time,-T-leadtime(quantile-of-aggregated-ensemble)", _AGG, 1, 0, ("obs", "q0.5"), "time", agg="leadtime")
_reg_request("N=1,input=0,[ens0,obs],axis=time,-T-leadtime(aggregated-member)", _AGG, 1, 0, ("ens0", "obs"), "time", agg="leadtime")


def _bad_input_index(n_inputs, j, clim=None):
    def setup(G):
        return ghost(G, n_inputs, clim=clim)

    def call(gh):
        return gh.data.get_scores([verif.field.Obs(), verif.field.Fcst()], j, verif.axis.No(), None)

    def post(S, gh, out):
        return [("must-abort", False)]

    def raises(S, gh, outcome):
        return [("error-exit", outcome.kind == "abort")]
    return setup, call, post, raises


for _n, _j, _cl, _tag in ((2, 2, None, "index=num_inputs"), (2, -1, None, "negative"), (1, 1, "subtract", "the-climatology-is-not-a-scored-input")):
    s, c, p, r = _bad_input_index(_n, _j, _cl)
    register(Obligation("verif.data.Data.get_scores#RAISES:input-index-%s" % _tag, ("C14", "C01"), s, c, p, raises=r, modules=MOD,
                        functions=["verif.data.Data.get_scores"]))


# ----------------------------------------------------------------------------------------------
# C18: history independence -- every ordered pair of requests from a menu, on one dataset.
# After the second call the FIRST result must still equal its specification (arrays handed out earlier are
# never altered), the second result must equal its own specification (which does not mention the first
# request), and the inputs are unmodified.  With the invariant below this is the induction step for every history.
# ----------------------------------------------------------------------------------------------
MENU = {
    "A": (("obs", "fcst"), 0, "time", False),
    "B": (("obs", "fcst"), 1, "time", False),
    "C": (("obs",), 0, "all", True),
    "D": (("obs", "fcst"), 0, "all", False),
    "E": (("fcst", "obs"), 0, "time", False),
    "F": (("fcst",), 1, "all", True),
    "G": (("obs", "fcst"), 1, "no", False),
}


def _do_request(gh, req, k):
    fields, j, axis_kind, single = req
    fl = [FIELDS[f]() for f in fields]
    out = gh.data.get_scores(fl[0] if single else fl, j, AXES[axis_kind](), k)
    return [out] if single else list(out)


def _pair(r1, r2, n_inputs=2, clim=None, obs_range=False, menu=MENU, same_slice=False, prob=False):
    q1, q2 = menu[r1], menu[r2]

    def setup(G):
        gh = ghost(G, n_inputs, clim=clim, obs_range=obs_range, prob=prob)
        gh.k1 = _slice_index(G, gh, q1[2])
        if r1 == r2 or same_slice:
            gh.k2 = gh.k1
        else:
            # a second, independent slice index (same axis kind => may or may not be the same slice)
            class _G2(object):
                def __getattr__(self, n):
                    return getattr(G, n)

                def num(self, name, **kw):
                    return G.num(name + "2", **kw)
            gh.k2 = _slice_index(_G2(), gh, q2[2])
        return gh

    def call(gh):
        a = _do_request(gh, q1, gh.k1)
        b = _do_request(gh, q2, gh.k2)
        return a, b

    def post(S, gh, out):
        a, b = out
        goals = check_result(S, gh, q1[1], q1[0], q1[2], gh.k1, a, label="first-result-still-as-specified-after-second-request:")
        goals += check_result(S, gh, q2[1], q2[0], q2[2], gh.k2, b, label="second-result-independent-of-first-request:")
        goals += frame_goals(S, gh)
        return goals
    return setup, call, post


for _a in sorted(MENU):
    for _b in sorted(MENU):
        s, c, p = _pair(_a, _b)
        register(Obligation("verif.data.Data.get_scores#INV:history[%s,%s]" % (_a, _b), ("C18",), s, c, p, modules=MOD,
                            functions=["verif.data.Data.get_scores", "verif.data.Data._get_score"]))

for _a in sorted(MENU):
    for _b in sorted(MENU):
        if _a != _b and MENU[_a][2] == MENU[_b][2] and MENU[_a][2] not in ("all", "no"):
            s, c, p = _pair(_a, _b, same_slice=True)
            register(Obligation("verif.data.Data.get_scores#INV:history[%s,%s,same-slice]" % (_a, _b), ("C18",), s, c, p, modules=MOD,
                                functions=["verif.data.Data.get_scores", "verif.data.Data._get_score"]))

CLIM_MENU = {
    "P": (("obs", "fcst"), 0, "all", False),
    "Q": (("obs", "fcst"), 0, "time", False),
    "R": (("fcst",), 0, "all", True),
}
for _a in sorted(CLIM_MENU):
    for _b in sorted(CLIM_MENU):
        s, c, p = _pair(_a, _b, n_inputs=1, clim="subtract", menu=CLIM_MENU)
        register(Obligation("verif.data.Data.get_scores#INV:history-with-climatology[%s,%s]" % (_a, _b), ("C18", "C14"), s, c, p, modules=MOD,
                            functions=["verif.data.Data.get_scores", "verif.data.Data._get_score"]))
# requests that differ only in WHICH probabilistic field they name: a stored threshold and an ensemble quantile with the same number,
# two thresholds whose numbers have the same Python hash (hash(-1.0) == hash(-2.0)); same input, axis and slice
PROB_MENU = {
    "T": (("obs", "thr0.5"), 0, "time", False),
    "U": (("obs", "q0.5"), 0, "time", False),
    "V": (("obs", "thr-1"), 0, "time", False),
    "W": (("obs", "thr-2"), 0, "time", False),
}
for _a, _b in (("T", "U"), ("U", "T"), ("V", "W"), ("W", "V")):
    s, c, p = _pair(_a, _b, n_inputs=1, menu=PROB_MENU, same_slice=True, prob=True)
    register(Obligation("verif.data.Data.get_scores#INV:history-probabilistic-fields[%s,%s,same-slice]" % (_a, _b), ("C18", "C08"), s, c, p, modules=MOD,
                        functions=["verif.data.Data.get_scores", "verif.data.Data._get_score"]))
for _a, _b in (("C", "A"), ("A", "C"), ("D", "A")):
    s, c, p = _pair(_a, _b, obs_range=True)
    register(Obligation("verif.data.Data.get_scores#INV:history-with-obsrange[%s,%s]" % (_a, _b), ("C18", "C03"), s, c, p, modules=MOD,
                        functions=["verif.data.Data.get_scores", "verif.data.Data._get_score"]))


# ----------------------------------------------------------------------------------------------
# C18 / C14: results do not depend on OTHER datasets built earlier in the same process (no state shared between Data objects)
# ----------------------------------------------------------------------------------------------
def _two_datasets():
    import verif.location

    def mk(name, arr, T, L, Sn):
        si = StubInput(name, arr["obs"], arr["fcst"])
        si.times = _np.array([86400.0 * i for i in range(T)])
        si.leadtimes = _np.array([6.0 * i for i in range(L)])
        si.locations = [verif.location.Location(float(i), 0.0, 0.0, 0.0) for i in range(Sn)]
        return si

    def body():
        import random
        rnd = random.Random(int(os.environ.get("VERIF_SEED", "0")) + 3)
        cases = 0
        for rep in range(12):
            shapes = [(2, 2, 2), rnd.choice([(2, 2, 2), (3, 1, 2), (1, 2, 3)])]
            for clim_type in ("subtract", "divide", None):
                datasets = []
                for T, L, Sn in shapes:
                    def arr():
                        a = _np.array([rnd.choice([1.0, 2.0, 4.0, -3.0, 0.5, float("nan")]) for _ in range(T * L * Sn)]).reshape(T, L, Sn)
                        return a
                    f = {"obs": arr(), "fcst": arr()}
                    # (the climatology file carries the same observations: the tool's assumption A5)
                    c = {"obs": f["obs"].copy(), "fcst": _np.where(_np.isnan(arr()), _np.nan, rnd.choice([1.0, 2.0, 8.0]))}
                    datasets.append((f, c, (T, L, Sn)))
                results = []
                for n, (f, c, (T, L, Sn)) in enumerate(datasets):
                    with contextlib.redirect_stdout(io.StringIO()):
                        kw = {"clim": mk("clim%d" % n, c, T, L, Sn), "clim_type": clim_type} if clim_type else {}
                        d = verif.data.Data([mk("in%d" % n, f, T, L, Sn)], **kw)
                        for axis, k in ((verif.axis.No(), 0), (verif.axis.Time(), 0), (verif.axis.Leadtime(), 0), (verif.axis.Location(), 1)):
                            o, fc = d.get_scores([verif.field.Obs(), verif.field.Fcst()], 0, axis, k)
                            sl = {"No": (slice(None),) * 3, "Time": (k,), "Leadtime": (slice(None), k), "Location": (slice(None), slice(None), k)}[axis.name()]
                            O, F = f["obs"][sl].flatten(), f["fcst"][sl].flatten()
                            C = c["fcst"][sl].flatten() if clim_type else None
                            if clim_type == "subtract":
                                O, F = O - C, F - C
                            elif clim_type == "divide":
                                with _np.errstate(all="ignore"):
                                    O, F = O / C, F / C
                            ok = _np.isfinite(O) & _np.isfinite(F)
                            wo, wf = (O[ok], F[ok]) if ok.any() else (_np.array([_np.nan]), _np.array([_np.nan]))
                            cases += 1
                            same = lambda a, b: a.shape == b.shape and bool(_np.all((a == b) | (_np.isnan(a) & _np.isnan(b))))
                            if not (same(_np.asarray(o, float), wo) and same(_np.asarray(fc, float), wf)):
                                return cases, {"dataset-number-in-this-process": n + 1, "climatology": clim_type, "axis": axis.name(), "slice": k,
                                               "got-obs": _np.asarray(o).tolist(), "want-obs": wo.tolist(), "got-fcst": _np.asarray(fc).tolist(), "want-fcst": wf.tolist()}
        return cases, None
    return body


from .axis import _enumerated as _enum_two
import contextlib, io
_enum_two("verif.data.Data.get_scores#INV:a-dataset-built-earlier-in-the-same-process-does-not-change-the-results", ("C18", "C14"),
          "12 seeded pairs of datasets (2x2x2 and another shape) x {no climatology, -c, -C}: the second dataset's obs/fcst for four slices against an "
          "independent computation from its own arrays", _two_datasets(), ["verif.data.Data.__init__", "verif.data.Data.get_scores"])


# ----------------------------------------------------------------------------------------------
# bounded stand-ins: _get_common_indices (C02, C03) and Data.__init__ (C03)
# (set operations on coordinate vectors and filter-append loops: DESIGN 2.4-3; labelled bounded)
# ----------------------------------------------------------------------------------------------
class _AxisInput(object):
    def __init__(self, name, values, axis_kind):
        import verif.location
        self.fullname = name
        self.times = self.leadtimes = None
        self.locations = []
        if axis_kind == "time":
            self.times = values
        elif axis_kind == "leadtime":
            self.leadtimes = values
        else:
            self.locations = [verif.location.Location(v, 0, 0, 0) for v in values]


def _common_indices(n_inputs, axis_kind):
    kinds = (FIN, NAN) if axis_kind != "location" else (FIN,)
    axis = {"time": verif.axis.Time, "leadtime": verif.axis.Leadtime, "location": verif.axis.Location}[axis_kind]()

    def setup(G):
        vals = [G.array("v%d" % i, ("a%d" % i,), kinds=kinds, grid=[0.0, 1.0, 2.0, 3.0]) for i in range(n_inputs)]
        return Bag(vals=vals, aux=G.array("aux", ("ax",), kinds=(FIN,), grid=[0.0, 1.0, 2.0, 5.0]), use_aux=G.boolean("use_aux"))

    def call(inp):
        inputs = [_AxisInput("in%d" % i, v, axis_kind) for i, v in enumerate(inp.vals)]
        return verif.data.Data._get_common_indices(inputs, axis, inp.aux if inp.use_aux else None)

    def post(S, inp, out):
        vals = [_np.asarray(v, float) for v in inp.vals]
        common = set(x for x in vals[0] if x == x)
        for v in vals[1:]:
            common &= set(x for x in v if x == x)
        if inp.use_aux:
            common &= set(float(x) for x in inp.aux)
        want = sorted(common)
        goals = [("one-index-list-per-input-in-input-order", len(out) == n_inputs),
                 ("every-list-has-one-entry-per-common-value", all(len(II) == len(want) for II in out))]
        ok_val = ok_first = True
        for v, II in zip(vals, out):
            if len(II) != len(want):
                ok_val = False
                continue
            for k, x in enumerate(want):
                pos = int(II[k])
                ok_val = ok_val and (0 <= pos < len(v)) and v[pos] == x
                ok_first = ok_first and (0 <= pos < len(v)) and not any(v[j] == x for j in range(pos))
        goals.append(("entry-k-points-at-the-k-th-smallest-common-value-in-the-input's-own-vector(ascending,distinct,no-missing)", ok_val))
        goals.append(("first-occurrence-of-a-repeated-coordinate", ok_first))
        return goals
    return setup, call, post


for _n in (1, 2, 3):
    for _ak in ("time", "leadtime", "location"):
        if _n == 3 and _ak != "time":
            continue
        s, c, p = _common_indices(_n, _ak)
        bounded_obligation("verif.data.Data._get_common_indices#BOUNDED:N=%d,%s" % (_n, _ak), ("C02", "C03", "C01", "C14"), s, c, p,
                           bound="%d input(s), coordinate vectors of length 1..3 each (lengths varied independently), values from {0,1,2,3,NaN}, "
                                 "optional user list from {0,1,2,5}: exhaustive where the grid is below the budget, seeded random sample beyond" % _n,
                           sizes=(1, 2, 3), budget=30000, thorough_budget=400000, vary_axes=True,
                           functions=["verif.data.Data._get_common_indices"])


def _common_indices_proof(n_inputs, axis_kind, with_aux):
    """deductive: coordinate vectors of ANY length (finite or NaN values), N inputs; np.sort / np.unique / np.intersect1d /
    np.isin by their assumed contracts (pyvc/setarr.py), everything else is the real function"""
    import z3
    from pyvc import setarr
    axis = {"time": verif.axis.Time, "leadtime": verif.axis.Leadtime}[axis_kind]()
    bounded_setup, _, bounded_post = _common_indices(n_inputs, axis_kind)

    def setup(G):
        vals = [G.array("v%d" % i, ("a%d" % i,), kinds=(FIN, NAN), grid=[0.0, 1.0, 2.0, 3.0]) for i in range(n_inputs)]
        b = Bag(vals=vals, use_aux=with_aux)
        b.aux = G.array("aux", ("ax",), kinds=(FIN, NAN), grid=[0.0, 1.0, 2.0, 5.0]) if with_aux else None
        return b

    def call(inp):
        if hasattr(inp.vals[0], "axes"):
            sym.CTX.set_theory = True
        inputs = [_AxisInput("in%d" % i, v, axis_kind) for i, v in enumerate(inp.vals)]
        return verif.data.Data._get_common_indices(inputs, axis, inp.aux if with_aux else None)

    def post(S, inp, out):
        if not S.symbolic:
            return bounded_post(S, inp, out)
        CTX = sym.CTX
        E = sym._elem_num
        # ghost: the array of common values is the set-like array whose positions the index lists are indexed by
        sets = CTX.ghost.get("setarrs", [])
        mine = [r for r in sets if len(out) and isinstance(out[0], sym.SArr) and r.axes[0] is out[0].axes[0]]
        if not sets:
            raise sym.Unsupported("no set-like array was built (decided on concrete inputs instead)")
        avail = mine[-1] if mine else sets[-1]
        ax = avail.axes[0]
        ag = avail._snapshot()
        goals = [("one-index-list-per-input-in-input-order", len(out) == n_inputs)]
        if len(out) != n_inputs:
            return goals
        # the contract speaks about entry k of each list through the generic index of the loop that wrote it
        loops = [(k, lo, hi) for (k, lo, hi) in CTX.loops]
        if len(loops) != n_inputs or not all(isinstance(II, sym.SArr) and len(II.axes) == 1 and II.sel is None for II in out):
            raise sym.Unsupported("the index lists were not written by one look-up loop per input (decided on concrete inputs instead)")
        for i in range(n_inputs):
            k, lo, hi = loops[i]
            goals.append(("input-%d:list-has-one-entry-per-common-value" % i,
                          z3.And(out[i].axes[0].size.v == ax.size.v, sym.toz(lo, "int") == 0, sym.toz(hi, "int") == ax.size.v)))
            if k is None:
                continue                       # no common value on this path: the index list is empty
            tg = inp.vals[i]._snapshot()
            tax = inp.vals[i].axes[0]
            pos = sym._toint(E(out[i]._snapshot()((k,))).v)
            v = E(ag((k,)))
            at = E(tg((pos,)))
            goals.append(("input-%d:entry-k-points-at-the-k-th-common-value" % i,
                          z3.And(pos >= 0, pos < tax.size.v, sym.bz(at.isfin()), at.rv() == v.rv())))
            j = tax.fresh_index("j")
            ej = E(tg((j,)))
            goals.append(("input-%d:first-occurrence-of-a-repeated-coordinate" % i,
                          z3.Implies(z3.And(sym.rng((j,)), j < pos), z3.Not(z3.And(sym.bz(ej.isfin()), ej.rv() == v.rv())))))
        k1, k2 = ax.fresh_index("k"), ax.fresh_index("k")
        e1, e2 = E(ag((k1,))), E(ag((k2,)))
        goals.append(("common-values-ascending,distinct,no-missing",
                      z3.Implies(z3.And(sym.rng((k1,)), sym.rng((k2,)), k1 < k2),
                                 z3.And(sym.bz(e1.isfin()), sym.bz(e2.isfin()), e1.rv() < e2.rv()))))
        # every common value occurs in every input and in the user's list
        srcs = list(inp.vals) + ([inp.aux] if with_aux else [])
        for n, arr in enumerate(srcs):
            raw = setarr._raws_of(arr)[0]
            raw.demand(e1.rv())
            w = raw.wit(e1.rv())
            ew = E(arr._snapshot()((w,)))
            goals.append(("common-value-occurs-in-%s" % ("input-%d" % n if n < n_inputs else "the-user's-list"),
                          z3.Implies(sym.rng((k1,)), z3.And(w >= 0, w < arr.axes[0].size.v, sym.bz(ew.isfin()), ew.rv() == e1.rv()))))
        # completeness: a non-missing value present in every input (and in the user's list) is a common value
        js = [arr.axes[0].fresh_index("c") for arr in srcs]
        es = [E(arr._snapshot()((j,))) for arr, j in zip(srcs, js)]
        v = es[0].rv()
        prem = z3.And(*([sym.rng((j,)) for j in js] + [sym.bz(e.isfin()) for e in es] + [e.rv() == v for e in es[1:]]))
        w = setarr.demand_any(avail, v)
        goals.append(("every-value-present-in-all-inputs-and-the-user's-list-is-a-common-value",
                      z3.Implies(prem, z3.And(w >= 0, w < ax.size.v, E(ag((w,))).rv() == v))))
        return goals

    def canary(S, inp, out):
        """a deliberately wrong contract (the entry is the LAST occurrence; common values may repeat): must be refuted"""
        CTX = sym.CTX
        E = sym._elem_num
        loops = list(CTX.loops)
        if not loops or loops[0][0] is None or not isinstance(out[0], sym.SArr):
            raise sym.Unsupported("no look-up loop on this path")
        k = loops[0][0]
        avail = [r for r in CTX.ghost["setarrs"] if r.axes[0] is out[0].axes[0]][-1]
        tg, tax = inp.vals[0]._snapshot(), inp.vals[0].axes[0]
        pos = sym._toint(E(out[0]._snapshot()((k,))).v)
        v = E(avail._snapshot()((k,)))
        j = tax.fresh_index("j")
        ej = E(tg((j,)))
        return [("last-occurrence", z3.Implies(z3.And(sym.rng((j,)), j > pos), z3.Not(z3.And(sym.bz(ej.isfin()), ej.rv() == v.rv()))))]
    return setup, call, post, canary


for _n in (1, 2, 3):
    for _ak in ("time", "leadtime"):
        for _aux in (False, True):
            if _n == 3 and _ak != "time":
                continue
            s, c, p, _cn = _common_indices_proof(_n, _ak, _aux)
            register(Obligation("verif.data.Data._get_common_indices#POST:N=%d,%s,%s" % (_n, _ak, "with-user-list" if _aux else "no-user-list"),
                                ("C02", "C03", "C01", "C14"), s, c, p, modules=MOD, canary=_cn, functions=["verif.data.Data._get_common_indices"],
                                assumptions=["numpy: np.sort, np.unique, np.intersect1d, np.isin on one-dimensional arrays of finite or NaN values "
                                             "(contracts in pyvc/setarr.py; checked on concrete arrays by numpy.set-routines#EXT)"],
                                doc="coordinate vectors of any length; values finite or NaN"))


def _numpy_set_routines():
    """the assumed contracts of pyvc/setarr.py, checked against the installed NumPy on sample arrays (finite or NaN values)"""
    def body():
        import random
        rnd = random.Random(int(os.environ.get("VERIF_SEED", "0")))
        nan = float("nan")
        cases = 0

        def members(a):
            return set(float(x) for x in a if x == x)

        def ascending(r, strict):
            fin = [x for x in r if x == x]
            nan_last = all(not (r[i] != r[i]) or (r[i + 1] != r[i + 1]) for i in range(len(r) - 1))
            return nan_last and all((a < b) if strict else (a <= b) for a, b in zip(fin, fin[1:]))
        pool = [0.0, 1.0, 2.0, 3.0, -1.5, 1e9, nan]
        for rep in range(4000):
            a = _np.array([rnd.choice(pool) for _ in range(rnd.randint(0, 6))], float)
            b = _np.array([rnd.choice(pool) for _ in range(rnd.randint(0, 6))], float)
            cases += 1
            s_ = _np.sort(a)
            u = _np.unique(a)
            us = _np.unique(s_)
            it = _np.intersect1d(a, b)
            iu = _np.intersect1d(u, _np.unique(b))
            isin = _np.isin(a, u[u == u])
            ok = {"sort": len(s_) == len(a) and ascending(s_, False) and members(s_) == members(a) and sum(x != x for x in s_) == sum(x != x for x in a),
                  "unique": len(u) <= len(a) and (len(a) == 0 or len(u) >= 1) and ascending(u, True) and members(u) == members(a),
                  "unique-of-sorted": list(map(repr, us)) == list(map(repr, u)),
                  "intersect1d": ascending(it, True) and not any(x != x for x in it) and members(it) == members(a) & members(b) and len(it) <= min(len(a), len(b)),
                  "intersect1d-of-unique": list(iu) == list(it),
                  "sort-of-ascending-is-identity": list(map(repr, _np.sort(u))) == list(map(repr, u)) and list(_np.sort(it)) == list(it),
                  "drop-nan-is-finite-prefix": list(u[_np.isnan(u) == 0]) == list(u[:int(sum(x == x for x in u))]),
                  "isin": [bool(x) for x in isin] == [(x == x) and (float(x) in members(a)) for x in a]}
            bad = [k for k, v in ok.items() if not v]
            if bad:
                return cases, {"a": a.tolist(), "b": b.tolist(), "violated": bad}
        return cases, None
    return body


from .axis import _enumerated as _enum_sets
_enum_sets("numpy.set-routines#EXT:assumed-contracts-of-sort,unique,intersect1d,isin-hold-on-sample-arrays", ("C02", "C03", "C01", "C14"),
           "4000 seeded random pairs of arrays of length 0..6 over {0,1,2,3,-1.5,1e9,NaN}", _numpy_set_routines(),
           ["numpy.sort", "numpy.unique", "numpy.intersect1d", "numpy.isin"])


def _init_spec(inp):
    """C03, from the property statement: verified dimensions = intersection of the inputs and of every subsetting option"""
    import verif.util
    ids = [[float(x) for x in v] for v in inp.ids]
    common_ids = set(ids[0])
    for v in ids[1:]:
        common_ids &= set(v)

    def meta(i):
        return 10.0 * i, 20.0 * i, 100.0 * i            # lat, lon, elev of location id i (same in every input)
    keep = set()
    for i in common_ids:
        lat, lon, elev = meta(i)
        ok = True
        if inp.use_lat:
            ok = ok and inp.lat_lo <= lat <= inp.lat_hi
        if inp.use_lon:
            ok = ok and inp.lon_lo <= lon <= inp.lon_hi
        if inp.use_elev:
            ok = ok and inp.elev_lo <= elev <= inp.elev_hi
        if inp.use_l:
            ok = ok and i in [float(x) for x in inp.l]
        if inp.use_lx:
            ok = ok and i not in [float(x) for x in inp.lx]
        if ok:
            keep.add(i)
    ts = set(float(x) for x in inp.times[0])
    for v in inp.times[1:]:
        ts &= set(float(x) for x in v)
    if inp.use_t:
        ts &= set(float(x) for x in inp.t)
    ts_before_dates = set(ts)
    if inp.use_d:
        days = set(verif.util.date_to_unixtime(int(d)) for d in inp.d)
        ts = set(t for t in ts if (t // 86400) * 86400 in days)
    if inp.use_tod:
        ts = set(t for t in ts if (t % 86400) / 3600 in [float(x) for x in inp.tod])
    ls = set(float(x) for x in inp.leadtimes[0])
    for v in inp.leadtimes[1:]:
        ls &= set(float(x) for x in v)
    if inp.use_o:
        ls &= set(float(x) for x in inp.o)
    return sorted(ts), sorted(ls), sorted(keep), sorted(ts_before_dates)


def _axis_caches_ok(d):
    """C11: the per-time / per-lead-time bucket arrays that _apply_axis slices with are those of the FINAL verified times and lead
    times (after -d / -tod), one entry per time / lead time, and their distinct values"""
    try:
        for ax in verif.axis.get_time_axes():
            want = _np.asarray(ax.compute_from_times(_np.asarray(d.times)), float)
            got = _np.asarray(d.axis_cache[ax], float)
            if got.shape != want.shape or not _np.array_equal(got, want) or not _np.array_equal(_np.asarray(d.axis_cache_unique[ax], float), _np.unique(want)):
                return False
        for ax in verif.axis.get_leadtime_axes():
            want = _np.asarray(ax.compute_from_leadtimes(_np.asarray(d.leadtimes)), float)
            got = _np.asarray(d.axis_cache[ax], float)
            if got.shape != want.shape or not _np.array_equal(got, want) or not _np.array_equal(_np.asarray(d.axis_cache_unique[ax], float), _np.unique(want)):
                return False
    except (KeyError, AttributeError):
        return False
    return True


def _data_init(n_inputs):
    import verif.location

    def setup(G):
        b = Bag(times=[], leadtimes=[], ids=[])
        for i in range(n_inputs):
            # incl. initialisation times before 1970 (negative unix times): 1969-12-31 00 and 06 UTC
            b.times.append(G.array("times%d" % i, ("t%d" % i,), kinds=(FIN,), grid=[0.0, 21600.0, 86400.0, -86400.0, -64800.0]))
            b.leadtimes.append(G.array("lead%d" % i, ("l%d" % i,), kinds=(FIN,), grid=[0.0, 6.0, 12.0]))
            b.ids.append(G.array("ids%d" % i, ("s%d" % i,), kinds=(FIN,), grid=[0.0, 1.0, 2.0]))
        for flag in ("t", "d", "tod", "o", "l", "lx", "lat", "lon", "elev"):
            b["use_" + flag] = G.boolean("use_" + flag)
        b.t = G.array("opt_t", ("ot",), kinds=(FIN,), grid=[0.0, 21600.0, 86400.0, -64800.0, 7.0])
        b.d = G.array("opt_d", ("od",), kinds=(FIN,), grid=[19700101.0, 19700102.0, 19691231.0, 19700103.0])
        b.tod = G.array("opt_tod", ("otod",), kinds=(FIN,), grid=[0.0, 6.0, 0.0, 12.0])
        b.o = G.array("opt_o", ("oo",), kinds=(FIN,), grid=[0.0, 6.0, 12.0, 24.0])
        b.l = G.array("opt_l", ("ol",), kinds=(FIN,), grid=[0.0, 1.0, 2.0, 7.0])
        b.lx = G.array("opt_lx", ("olx",), kinds=(FIN,), grid=[0.0, 1.0, 2.0])
        for nm, grid in (("lat", [0.0, 10.0, 20.0, 5.0]), ("lon", [0.0, 20.0, 40.0, 30.0]), ("elev", [0.0, 100.0, 200.0, 150.0])):
            b[nm + "_lo"] = G.num(nm + "_lo", grid=grid)
            b[nm + "_hi"] = G.num(nm + "_hi", grid=grid)
        return b

    def call(inp):
        inputs = []
        for i in range(n_inputs):
            T, L, Sn = len(inp.times[i]), len(inp.leadtimes[i]), len(inp.ids[i])
            si = StubInput("in%d" % i, _np.zeros([T, L, Sn]), _np.zeros([T, L, Sn]))
            si.times = _np.asarray(inp.times[i], float)
            si.leadtimes = _np.asarray(inp.leadtimes[i], float)
            si.locations = [verif.location.Location(float(x), 10.0 * float(x), 20.0 * float(x), 100.0 * float(x)) for x in inp.ids[i]]
            inputs.append(si)
        kw = {}
        if inp.use_t: kw["times"] = [float(x) for x in inp.t]
        if inp.use_d: kw["dates"] = [int(x) for x in inp.d]
        if inp.use_tod: kw["tods"] = [float(x) for x in inp.tod]
        if inp.use_o: kw["leadtimes"] = [float(x) for x in inp.o]
        if inp.use_l: kw["locations"] = [float(x) for x in inp.l]
        if inp.use_lx: kw["locations_x"] = [float(x) for x in inp.lx]
        if inp.use_lat: kw["lat_range"] = [float(inp.lat_lo), float(inp.lat_hi)]
        if inp.use_lon: kw["lon_range"] = [float(inp.lon_lo), float(inp.lon_hi)]
        if inp.use_elev: kw["elev_range"] = [float(inp.elev_lo), float(inp.elev_hi)]
        return verif.data.Data(inputs, **kw)

    def post(S, inp, out):
        ts, ls, ids, ts0 = _init_spec(inp)
        got_t = [float(x) for x in out.times]
        got_l = [float(x) for x in out.leadtimes]
        got_s = [float(loc.id) for loc in out.locations]
        idx_ok = all(len(out._timesI[i]) == len(got_t) and len(out._leadtimesI[i]) == len(got_l) and len(out._locationsI[i]) == len(got_s)
                     for i in range(n_inputs))
        # entry k of every input's index list points at the k-th verified coordinate in that input's own vector
        if idx_ok:
            for i in range(n_inputs):
                own_t = [float(x) for x in inp.times[i]]
                own_l = [float(x) for x in inp.leadtimes[i]]
                own_s = [float(x) for x in inp.ids[i]]
                idx_ok = idx_ok and all(own_t[int(p)] == got_t[k] for k, p in enumerate(out._timesI[i]))
                idx_ok = idx_ok and all(own_l[int(p)] == got_l[k] for k, p in enumerate(out._leadtimesI[i]))
                idx_ok = idx_ok and all(own_s[int(p)] == got_s[k] for k, p in enumerate(out._locationsI[i]))
        return [("times=intersection-and-t,d,tod-subsets,ascending,distinct", got_t == ts),
                ("leadtimes=intersection-and-o-subset,ascending,distinct", got_l == ls),
                ("locations=intersection-and-l,lx,latrange,lonrange,elevrange(inclusive),ascending,distinct", got_s == ids),
                ("nothing-selected-must-stop-with-an-error-before-dates-are-applied", bool(ts0) and bool(ls) and bool(ids)),
                ("index-lists-match-the-verified-dimensions", idx_ok),
                ("slice-caches-describe-the-verified-times-and-leadtimes", _axis_caches_ok(out))]

    def raises(S, inp, outcome):
        ts, ls, ids, ts0 = _init_spec(inp)
        return [("error-exit-only-when-the-selection-is-empty", outcome.kind == "abort" and (not ts0 or not ls or not ids))]
    return setup, call, post, raises


for _n in (1, 2):
    s, c, p, r = _data_init(_n)
    bounded_obligation("verif.data.Data.__init__#BOUNDED:N=%d" % _n, ("C03", "C02", "C11", "C12"), s, c, p, raises=r,
                       bound="%d input(s); times/leadtimes/location ids of length 2..3 from small grids; every subset of the options -t -d -tod -o -l -lx "
                             "-latrange -lonrange -elevrange with values from small grids incl. end points equal to a station's coordinate and values "
                             "matching nothing; seeded random sample of the product (count in evidence)" % _n,
                       sizes=(2, 3), budget=24000, thorough_budget=300000, vary_axes=True, functions=["verif.data.Data.__init__"])


# ----------------------------------------------------------------------------------------------
# Data.__init__: -latrange / -lonrange / -elevrange / -l / -lx resolved to station ids, for ALL coordinate values
# (deductive in the coordinates and range end points incl. NaN and infinite coordinates; the number of stations is fixed)
# ----------------------------------------------------------------------------------------------
L_MENU = [None, [0.0], [1.0, 2.0], [2.0, 0.0, 7.0], []]          # an empty -l list selects nothing (it is not "option not given")
LX_MENU = [None, [1.0], [0.0, 2.0], []]


def _location_ranges(n_stations, menus=True):
    import verif.location
    L_MENU_, LX_MENU_ = (L_MENU, LX_MENU) if menus else ([None], [None])
    if menus and n_stations >= 2:
        # (smaller menus keep the number of paths below the budget)
        L_MENU_, LX_MENU_ = [None, [0.0], [1.0, 0.0, 7.0], []], [None, [1.0], []]

    def setup(G):
        b = Bag(lat=[], lon=[], elev=[])
        for j in range(n_stations):
            b.lat.append(G.num("lat%d" % j, kinds=ALL_KINDS, numpy=False, grid=[10.0, 50.0, 60.0, 95.0, float("nan")]))
            b.lon.append(G.num("lon%d" % j, kinds=ALL_KINDS, numpy=False, grid=[-170.0, 10.0, 200.0, 350.0, float("nan")]))
            b.elev.append(G.num("elev%d" % j, kinds=ALL_KINDS, numpy=False, grid=[0.0, 100.0, 250.0, -5.0, float("nan")]))
        for nm, grid in (("lat", [10.0, 50.0, 60.0, 0.0]), ("lon", [10.0, 200.0, 350.0, -180.0]), ("elev", [0.0, 100.0, 250.0, 1000.0])):
            b["use_" + nm] = G.boolean("use_" + nm)
            b[nm + "_lo"] = G.num(nm + "_lo", numpy=False, grid=grid)
            b[nm + "_hi"] = G.num(nm + "_hi", numpy=False, grid=grid)
        b.l = G.choice("l", L_MENU_)
        b.lx = G.choice("lx", LX_MENU_)
        return b

    def call(inp):
        si = StubInput("in0", _np.zeros([1, 1, n_stations]), _np.zeros([1, 1, n_stations]))
        si.times = _np.array([0.0])
        si.leadtimes = _np.array([0.0])
        si.locations = [verif.location.Location(float(j), inp.lat[j], inp.lon[j], inp.elev[j]) for j in range(n_stations)]
        kw = {}
        if inp.l is not None: kw["locations"] = list(inp.l)
        if inp.lx is not None: kw["locations_x"] = list(inp.lx)
        if inp.use_lat: kw["lat_range"] = [inp.lat_lo, inp.lat_hi]
        if inp.use_lon: kw["lon_range"] = [inp.lon_lo, inp.lon_hi]
        if inp.use_elev: kw["elev_range"] = [inp.elev_lo, inp.elev_hi]
        return verif.data.Data([si], **kw)

    def selected(S, inp, j):
        """C03, from the property statement: the station satisfies every subsetting option GIVEN (ranges inclusive)"""
        conds = [S.implies(inp["use_" + nm], S.and_(inp[nm + "_lo"] <= inp[nm][j], inp[nm][j] <= inp[nm + "_hi"])) for nm in ("lat", "lon", "elev")]
        ok = S.and_(*conds)
        if inp.l is not None and float(j) not in inp.l:
            return S.and_(ok, False)
        if inp.lx is not None and float(j) in inp.lx:
            return S.and_(ok, False)
        return ok

    def post(S, inp, out):
        got = [float(loc.id) for loc in out.locations]
        goals = [("station-%d-verified-iff-it-satisfies-every-given-option" % j, S.iff(float(j) in got, selected(S, inp, j))) for j in range(n_stations)]
        goals.append(("ascending-distinct", got == sorted(set(got))))
        goals.append(("index-list-matches", [int(i) for i in out._locationsI[0]] == [int(g) for g in got]))
        return goals

    def raises(S, inp, outcome):
        return [("error-exit-only-when-no-station-satisfies-the-options",
                 S.and_(outcome.kind == "abort", *[S.not_(selected(S, inp, j)) for j in range(n_stations)]))]
    return setup, call, post, raises


for _n in (1, 2):
    s, c, p, r = _location_ranges(_n)
    register(Obligation("verif.data.Data.__init__#POST:location-options[%d-station%s]" % (_n, "s" if _n > 1 else ""), ("C03",), s, c, p, raises=r, modules=MOD,
                        functions=["verif.data.Data.__init__"],
                        doc="for all real / NaN / infinite station coordinates and all range end points; station count and the -l/-lx lists are fixed"))


# ----------------------------------------------------------------------------------------------
# thresholds / quantiles / fields common to all inputs (used by the driver's defaults and by get_p requests)
# ----------------------------------------------------------------------------------------------
def _built(inputs):
    """a dataset built by the REAL constructor from 1x1x1 stub inputs"""
    import verif.location
    for si in inputs:
        si.times, si.leadtimes = _np.array([0.0]), _np.array([0.0])
        si.locations = [verif.location.Location(0, 0, 0, 0)]
    with contextlib.redirect_stdout(io.StringIO()):
        return verif.data.Data(list(inputs))


def _common_levels():
    from .axis import _enumerated

    def body():
        cases = 0
        combos = [([0.5, 2.0, 1.0], [1.0, 0.5]), ([], [1.0]), ([3.0], [3.0]), ([1.0, 2.0], [3.0]), ([2.0, 1.0], [2.0, 1.0, 0.0])]
        for a, b in combos:
            for n_in in (1, 2):
                ins = []
                for k, lv in enumerate((a, b)[:n_in]):
                    si = StubInput("in%d" % k, _np.zeros([1, 1, 1]), _np.zeros([1, 1, 1]))
                    si.thresholds = _np.array(lv)
                    si.quantiles = _np.array([x / 10.0 for x in lv])
                    ins.append(si)
                d = _built(ins)
                want = sorted(set(a) & set(b)) if n_in == 2 else sorted(set(a))
                cases += 1
                got_t, got_q = list(d._get_thresholds()), list(d._get_quantiles())
                if got_t != want or got_q != [x / 10.0 for x in want]:
                    return cases, {"input-thresholds": [a, b][:n_in], "got": got_t, "want": want, "quantiles": got_q}
        # fields common to all inputs
        i0 = StubInput("a", _np.zeros([1, 1, 1]), _np.zeros([1, 1, 1]), {"aux": _np.zeros([1, 1, 1])})
        i1 = StubInput("b", None, _np.zeros([1, 1, 1]))
        d = _built([i0, i1])
        cases += 1
        got = sorted(type(f).__name__ for f in d.get_fields())
        if got != ["Fcst"]:
            return cases, {"fields-common-to-both-inputs": got, "want": ["Fcst"]}
        return cases, None
    return body


from .axis import _enumerated as _enum2
_enum2("verif.data.Data._get_thresholds+_get_quantiles+get_fields#BOUNDED:common-to-all-inputs", ("C08", "C13"),
       "five pairs of threshold lists (unsorted, empty, disjoint, equal) for one and two inputs; fields of an input with and without observations",
       _common_levels(), ["verif.data.Data._get_thresholds", "verif.data.Data._get_quantiles", "verif.data.Data.get_fields"])
