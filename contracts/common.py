"""Spec functions shared by several contracts.  Each is written from the PROPERTY STATEMENT
(properties.jsonl), never from the implementation, and has a symbolic and a concrete reading
through the spec library S."""
from pyvc.framework import FIN, NAN, PINF, NINF

BIN_TYPES = ["below", "below=", "above", "above=", "within", "=within", "within=", "=within="]
ONE_SIDED = ["below", "below=", "above", "above="]
TWO_SIDED = ["within", "=within", "within=", "=within="]
NOT_NAN = (FIN, PINF, NINF)


def event(S, bin_type, x, t, t2=None):
    """C07: the documented event of a bin type.  below: x<t, below=: x<=t, above: x>t, above=: x>=t,
    within / =within / within= / =within=: between t and t2 with the stated ends closed.
    Missing values belong to no event."""
    if bin_type == "below":
        c = x < t
    elif bin_type == "below=":
        c = x <= t
    elif bin_type == "above":
        c = x > t
    elif bin_type == "above=":
        c = x >= t
    elif bin_type == "within":
        c = S.and_(x > t, x < t2)
    elif bin_type == "=within":
        c = S.and_(x >= t, x < t2)
    elif bin_type == "within=":
        c = S.and_(x > t, x <= t2)
    elif bin_type == "=within=":
        c = S.and_(x >= t, x <= t2)
    else:
        raise ValueError(bin_type)
    return S.and_(S.not_(S.isnan(x)), c)


def member(S, x, lower, upper, lower_eq, upper_eq):
    """documented interval membership: [lower, upper], (lower, upper], [lower, upper), (lower, upper);
    NaN is in no interval"""
    lo = (x >= lower) if lower_eq else (x > lower)
    hi = (x <= upper) if upper_eq else (x < upper)
    return S.and_(S.not_(S.isnan(x)), lo, hi)


def interval_table(bin_type, t, t2, neg_inf, pos_inf):
    """(lower, upper, lower_eq, upper_eq) of the interval that the documentation assigns to a bin type"""
    if bin_type in ("below", "below="):
        lower, upper = neg_inf, t
    elif bin_type in ("above", "above="):
        lower, upper = t, pos_inf
    else:
        lower, upper = t, t2
    lower_eq = bin_type in ("above=", "=within", "=within=")
    upper_eq = bin_type in ("below=", "within=", "=within=")
    return lower, upper, lower_eq, upper_eq


def _register_lean():
    from pyvc import leancheck
    leancheck.register(("C05", "C06", "C04", "C08", "C11", "C01", "C02", "C03", "C14"), ["R1", "R2", "R3", "R4", "R5", "R6", "R7", "R8", "R9", "R10", "R11", "R12"])


_register_lean()
