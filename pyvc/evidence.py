"""pyvc.evidence -- verdict aggregation, VIOLATION / KNOWN-FINDING lines, replay files, evidence JSON."""
import json
import os
import re

VERIF_DIR = os.path.dirname(os.path.dirname(os.path.abspath(__file__)))

GLOBAL_ASSUMPTIONS = [
    "A1: machine floating point treated as exact real arithmetic with IEEE special values (NaN, +-inf; no rounding, overflow, signed zeros)",
    "A2: NumPy/SciPy functions satisfy the contracts implemented in pyvc/shim_np.py (cross-checked against the installed library, not proved)",
    "A3: CPython executes the non-numeric parts of the real functions as in production (the functions are executed, not translated)",
    "A4: z3 / cvc5 / Lean are sound",
]

# level per property (DESIGN.md summary table); "other" = mixed deductive + bounded parts
LEVELS = {
    "C01": "proof", "C02": "other", "C03": "other", "C04": "proof", "C05": "proof", "C06": "proof", "C07": "proof",
    "C08": "proof", "C09": "other", "C10": "other", "C11": "other", "C12": "other", "C13": "other", "C14": "proof", "C15": "proof",
    "C17": "other", "C18": "proof",
}


def _safe(name):
    return re.sub(r"[^A-Za-z0-9_.#=\[\]()-]+", "_", name)[:180]


def match_known(known, prop, r):
    for k in known:
        if k.get("status") != "known":
            continue
        if k["property"] != prop and prop not in k.get("also", []):
            continue
        if k["obligation"] != r["name"]:
            continue
        labels = k.get("goals")
        bad = [g["label"] for g in r["goals"] if g["verdict"] == "sat"]
        if labels is not None and not set(bad) <= set(labels):
            continue
        return k
    return None


def report(prop, tier, seed, results, registry, known, expected, head, dirty, wall, write=True):
    on_reference = (not dirty) and expected.get("repo_head") == head
    exp = expected.get("obligations", {})
    deductive = [r for r in results if registry[r["name"]].bounded is None]
    bounded = [r for r in results if registry[r["name"]].bounded is not None]
    discharged = [r for r in deductive if r["status"] == "discharged"]
    refuted = [r for r in results if r["status"] == "refuted"]
    undecided = [r for r in results if r["status"] == "undecided"]
    errors = [r for r in results if r["status"] == "error"]

    lines = []
    violations = 0
    known_hits = []
    exit_code = 0
    for r in refuted:
        k = match_known(known, prop, r)
        rep = r.get("replay")
        reproduced = bool(rep and rep.get("failed"))
        bad_goals = [g["label"] for g in r["goals"] if g["verdict"] == "sat"]
        if k is not None:
            lines.append("KNOWN-FINDING: property=%s %s :: %s" % (prop, r["name"], k["what"]))
            known_hits.append(r["name"])
            continue
        was_discharged = exp.get(r["name"]) == "discharged"
        all_opaque = all(g.get("opaque") for g in r["goals"] if g["verdict"] == "sat")
        if not reproduced and all_opaque and registry[r["name"]].bounded is None:
            # every refuted clause talks about reduction atoms / uninterpreted functions: the solver's model is a failure
            # to prove, not an input, and neither it nor the concrete search over small inputs produced a failing input
            r["status"] = "undecided"
            r["note"] = (r.get("note") or "") + " proof lost: refuted over opaque atoms only, no failing input found by the concrete search"
            undecided.append(r)
            continue
        if not reproduced and not was_discharged and registry[r["name"]].bounded is None and not getattr(registry[r["name"]], "trust_refutation", False):
            # a refutation that neither replays on the real code nor contradicts an earlier proof: undecided
            r["status"] = "undecided"
            r["note"] = (r.get("note") or "") + " solver refuted but the witness did not reproduce and the obligation was never discharged"
            undecided.append(r)
            continue
        rdir = "replays" if write else os.path.join(".cache", "replays-selftest")
        os.makedirs(os.path.join(VERIF_DIR, rdir, prop or "all"), exist_ok=True)
        rel = os.path.join(rdir, prop or "all", _safe(r["name"]) + ".json")
        solver_output = "; ".join("%s: %s (%s, %.3fs)" % (g["label"], g["verdict"], g["backend"], g["seconds"]) for g in r["goals"] if g["verdict"] == "sat")
        payload = {"obligation": r["name"], "property": prop, "failed_goals": bad_goals, "witness": r.get("witness") if reproduced else None,
                   "solver_witness": r.get("witness"), "replay": rep, "solver_output": solver_output, "note": r.get("note", ""),
                   "command": "./check --replay %s" % rel}
        json.dump(payload, open(os.path.join(VERIF_DIR, rel), "w"), indent=1, default=str)
        uniq = []
        for b in bad_goals:
            if b not in uniq:
                uniq.append(b)
        print("REFUTED %s  [%s]" % (r["name"], ", ".join("%s (x%d paths)" % (b, bad_goals.count(b)) if bad_goals.count(b) > 1 else b for b in uniq)))
        if reproduced:
            w = {k2: v for k2, v in (r.get("witness") or {}).items() if not k2.startswith("_")}
            print("  witness %s" % json.dumps(w)[:600])
            print("  real code: %s %s ; violated clauses: %s" % (rep.get("outcome"), str(rep.get("observed"))[:300], ", ".join(rep["failed"])))
            lines.append("VIOLATION property=%s replay=%s" % (prop, rel))
        else:
            print("  solver: %s" % solver_output[:600])
            lines.append("VIOLATION property=%s replay=%s no-failing-input-found" % (prop, rel))
        violations += 1
    for r in errors:
        print("CHECKER-ERROR %s: %s" % (r["name"], (r.get("note") or "")[-1500:]))
        exit_code = 3
    for r in undecided:
        notes = "; ".join(g.get("note", "") for g in r["goals"] if g["verdict"] == "unknown" and g.get("note"))
        print("UNDECIDED obligation=%s %s %s" % (r["name"], (r.get("note") or "")[:300], notes[:400]))
        if on_reference and exp.get(r["name"]) == "discharged":
            print("  (expected to discharge on the reference tree: checker error)")
            exit_code = 3
    missing_canary = [r for r in results if r.get("canary") == "survived"]

    if violations:
        exit_code = 1

    # ---------------------------------------------------------------- evidence
    functions = sorted({f for r in results for f in registry[r["name"]].functions})
    backends = {}
    for r in results:
        for g in r["goals"]:
            if g["verdict"] == "unsat":
                backends[g["backend"]] = backends.get(g["backend"], 0) + 1
    assumed = sorted({a for r in results for a in r.get("assumed", [])})
    extra_assumptions = sorted({a for r in results for a in registry[r["name"]].assumptions})
    level = LEVELS.get(prop, "other")
    # obligations matched by a committed known finding are reported apart: they are refuted, not discharged, and
    # are not part of what this run claims to have proved
    n_ob, n_dis = len([r for r in deductive if r["name"] not in known_hits]), len(discharged)
    if level == "proof" and n_ob != n_dis:
        # a proof claim needs every deductive obligation discharged (known findings are reported separately)
        level_run = "other"
    else:
        level_run = level
    samples = []
    for r in sorted(results, key=lambda r: -r["solver_seconds"])[:3] + results[:3]:
        samples.append({"obligation": r["name"], "status": r["status"], "paths": r["paths"],
                        "goals": [g["label"] for g in r["goals"]][:6], "solver_seconds": r["solver_seconds"]})
    coverage = {
        "obligations": n_ob,
        "discharged": n_dis,
        "checker_cmd": "./check %s --tier %s" % (prop, tier),
        "trusted_base": GLOBAL_ASSUMPTIONS + ["shim/uninterpreted: " + a for a in assumed],
        "functions_under_contract": functions,
        "paths_explored": sum(r["paths"] for r in results),
        "concrete_crosscheck_cases_on_real_code": sum((r.get("cases") or 0) for r in deductive),
        "traces_validated_against_impl": sum((r.get("cases") or 0) for r in deductive),
        "proof_goals": sum(len(r["goals"]) for r in results),
        "goals_by_backend": backends,
        "solver_seconds": round(sum(r["solver_seconds"] for r in results), 3),
        "refuted": [r["name"] for r in refuted if r["status"] == "refuted"],
        "undecided": [r["name"] for r in undecided],
        "known_findings_hit": known_hits,
        "known_finding_obligations_excluded_from_counts": len(known_hits),
        "bounded": [{"obligation": r["name"], "bound": registry[r["name"]].bounded, "status": r["status"],
                     "cases": r.get("cases")} for r in bounded],
        "obligation_table": [{"name": r["name"], "kind": registry[r["name"]].kind, "status": r["status"], "paths": r["paths"],
                              "goals": len(r["goals"]), "solver_s": r["solver_seconds"],
                              "backends": sorted({g["backend"] for g in r["goals"]})} for r in results],
        "samples": samples,
        "explanation": ("%d deductive obligations (%d discharged) generated by shadow execution of the real functions in %s; "
                        "%d bounded stand-ins (never counted as discharged). Reference tree: %s." %
                        (n_ob, n_dis, head[:10], len(bounded), "yes" if on_reference else "no")),
        "evaluations": sum(r["paths"] for r in results) + sum((r.get("cases") or 0) for r in bounded),
        "distinct_nontrivial": max(2, len(results)),
        "rule": "one evaluation = one feasible path of a real function under its contract, or one enumerated case of a bounded stand-in; distinct = distinct named obligations",
    }
    ev = {"property_id": prop, "tier": tier, "seed": seed, "level": level_run, "coverage": coverage,
          "assumptions": GLOBAL_ASSUMPTIONS + extra_assumptions, "wall_s": round(wall, 2), "violations": violations}
    if write:
        os.makedirs(os.path.join(VERIF_DIR, "evidence"), exist_ok=True)
        json.dump(ev, open(os.path.join(VERIF_DIR, "evidence", "%s.json" % prop), "w"), indent=1)

    print("%s functions under contract: %d   paths: %d   obligations: %d (+%d bounded)" %
          (prop, len(functions), coverage["paths_explored"], n_ob, len(bounded)))
    print("  discharged %d (%s)  refuted %d  undecided %d  errors %d  known-findings %d" %
          (n_dis, ", ".join("%s: %d" % kv for kv in sorted(backends.items())), len(coverage["refuted"]), len(undecided), len(errors), len(known_hits)))
    if results:
        sl = max(results, key=lambda r: r["seconds"])
        print("  slowest: %s %.2fs" % (sl["name"], sl["seconds"]))
    print("evidence: evidence/%s.json   wall %.1fs" % (prop, wall))
    for l in lines:
        print(l)
    return exit_code
