"""Contracts for the metrics that read fields through Data.get_scores (C05 conditional axes, C04, C07 call sites):
ObsFcstBased.compute_single, FromField.compute_single, Conditional, XConditional, Count, Metric.compute."""
import numpy as _np

import verif.metric
import verif.axis
import verif.field
import verif.interval

from pyvc import sym
from pyvc.framework import Obligation, register, Bag, FIN, NAN, PINF, NINF, ALL_KINDS
from .common import member, NOT_NAN
from .metric_det import DualAgg

MOD = [verif.metric, verif.interval, verif.aggregator, verif.util]


class StubData(object):
    """contract stub of verif.data.Data.get_scores (C01): the arrays of one request are aligned, of equal length
    and free of missing values -- or the one-element NaN sentinel; every request is recorded"""
    def __init__(self, arrays_by_field):
        self.arrays = arrays_by_field      # list of (field, array)
        self.requests = []

    def get_scores(self, fields, input_index, axis=None, axis_index=None):
        single = not isinstance(fields, list)
        fl = [fields] if single else list(fields)
        self.requests.append((tuple(fl), input_index, axis, axis_index))
        out = []
        for f in fl:
            hit = [a for (g, a) in self.arrays if g == f]
            if not hit:
                raise AssertionError("unexpected field requested: %r" % (f,))
            out.append(hit[0])
        return out[0] if single else out


def _interval(G):
    return Bag(lower=G.num("lower", kinds=NOT_NAN), upper=G.num("upper", kinds=NOT_NAN),
               lower_eq=G.boolean("lower_eq"), upper_eq=G.boolean("upper_eq"))


def _mk(iv):
    return verif.interval.Interval(iv.lower, iv.upper, iv.lower_eq, iv.upper_eq)


def _member_arr(S, arr, iv):
    return lambda i: member(S, S.at(arr, i), iv.lower, iv.upper, bool(iv.lower_eq), bool(iv.upper_eq))


def _cond_array(S, arr, iv):
    """boolean array: arr element in interval (dual)"""
    if S.symbolic:
        g = arr._snapshot()
        return arr._like(lambda idx: sym.SBool(S.z(member(S, g(idx), iv.lower, iv.upper, bool(iv.lower_eq), bool(iv.upper_eq)))), "bool")
    a = _np.asarray(arr, float)
    return _np.array([bool(member(S, x, iv.lower, iv.upper, bool(iv.lower_eq), bool(iv.upper_eq))) for x in a], bool)


# ------------------------------------------------------------------ ObsFcstBased.compute_single
def _ofb_single(axis_name):
    axis = getattr(verif.axis, axis_name)()

    def setup(G):
        return Bag(obs=G.array("obs", ("n",), kinds=(FIN, NAN)), fcst=G.array("fcst", ("n",), kinds=(FIN, NAN)),
                   iv=_interval(G), v=G.num("v", kinds=ALL_KINDS), rec={})

    def call(inp):
        m = verif.metric.Mae()
        data = StubData([(verif.field.Obs(), inp.obs), (verif.field.Fcst(), inp.fcst)])
        inp.rec["data"] = data

        def stub(obs, fcst, interval=None):
            inp.rec["args"] = (obs, fcst, interval)
            return inp.v
        m.compute_from_obs_fcst = stub
        inp.rec["I"] = _mk(inp.iv)
        return m.compute_single(data, 0, axis, 7, inp.rec["I"])

    def post(S, inp, out):
        o2, f2, iv2 = inp.rec["args"]
        req = inp.rec["data"].requests
        goals = [("requests-obs-and-fcst-of-the-same-slice", len(req) == 1 and req[0] == ((verif.field.Obs(), verif.field.Fcst()), 0, axis, 7)),
                 ("result-returned-unchanged", S.same(out, inp.v))]
        if axis_name in ("Obs", "Fcst"):
            cond = _cond_array(S, inp.obs if axis_name == "Obs" else inp.fcst, inp.iv)
            goals.append(("both-arrays-subset-by-the-same-event-of-the-conditioning-field",
                          S.and_(S.same_array(o2, S.filtered(inp.obs, cond)), S.same_array(f2, S.filtered(inp.fcst, cond)))))
        else:
            goals.append(("arrays-passed-unchanged", S.and_(S.same_array(o2, inp.obs), S.same_array(f2, inp.fcst))))
        return goals
    return setup, call, post


for _ax in ("Obs", "Fcst", "Leadtime"):
    s, c, p = _ofb_single(_ax)
    register(Obligation("verif.metric.ObsFcstBased.compute_single#POST:axis=%s" % _ax.lower(), ("C05", "C04", "C07"), s, c, p, modules=MOD,
                        functions=["verif.metric.ObsFcstBased.compute_single"]))


# ------------------------------------------------------------------ FromField.compute_single
def _fromfield(field_name, axis_name, with_aux):
    axis = getattr(verif.axis, axis_name)()
    field = getattr(verif.field, field_name)()

    def setup(G):
        return Bag(x=G.array("x", ("n",), kinds=(FIN, NAN)), y=G.array("y", ("n",), kinds=(FIN, NAN)),
                   z=G.array("z", ("n",), kinds=(FIN, NAN)), iv=_interval(G), agg=DualAgg(), rec={})

    def call(inp):
        aux = verif.field.Pit() if with_aux else None
        m = verif.metric.FromField(field, aux)
        m.aggregator = inp.agg
        other = verif.field.Obs() if field_name != "Obs" else verif.field.Fcst()
        data = StubData([(field, inp.x), (other, inp.y), (verif.field.Pit(), inp.z)])
        inp.rec["data"] = data
        return m.compute_single(data, 1, axis, 3, _mk(inp.iv))

    def post(S, inp, out):
        req = inp.rec["data"].requests
        fields = req[0][0] if req else ()
        want_fields = [field]
        cond_arr = None
        if axis_name in ("Obs", "Fcst"):
            axf = getattr(verif.field, axis_name)()
            if field != axf:
                want_fields.append(axf)
                cond_arr = inp.y
            else:
                cond_arr = inp.x
        if with_aux:
            want_fields.append(verif.field.Pit())
        goals = [("requests-the-field,the-conditioning-field-and-the-auxiliary-field-together",
                  len(req) == 1 and list(fields) == want_fields and req[0][1:] == (1, axis, 3))]
        if cond_arr is None:
            goals.append(("aggregate-of-the-field", S.same(out, inp.agg(inp.x))))
        else:
            cond = _cond_array(S, cond_arr, inp.iv)
            goals.append(("aggregate-of-the-field-over-the-event-of-the-conditioning-field", S.same(out, inp.agg(S.filtered(inp.x, cond)))))
        return goals
    return setup, call, post


for _f, _ax, _aux in (("Obs", "Leadtime", False), ("Obs", "Obs", False), ("Obs", "Fcst", False), ("Fcst", "Obs", True), ("Fcst", "Fcst", False),
                      ("Fcst", "Time", True)):
    s, c, p = _fromfield(_f, _ax, _aux)
    register(Obligation("verif.metric.FromField.compute_single#POST:field=%s,axis=%s%s" % (_f.lower(), _ax.lower(), ",aux" if _aux else ""),
                        ("C05", "C04", "C07"), s, c, p, modules=MOD, functions=["verif.metric.FromField.compute_single"]))


# ------------------------------------------------------------------ Conditional / XConditional / Count
def _conditional(which):
    def setup(G):
        return Bag(x=G.array("x", ("n",), kinds=ALL_KINDS), y=G.array("y", ("n",), kinds=(FIN, NAN)), iv=_interval(G))

    def call(inp):
        if which == "Conditional":
            return verif.metric.Conditional().compute_from_obs_fcst(inp.x, inp.y, _mk(inp.iv))
        if which == "XConditional":
            return verif.metric.XConditional().compute_from_obs_fcst(inp.x, inp.y, _mk(inp.iv))
        data = StubData([(verif.field.Obs(), inp.x)])
        return verif.metric.Count(verif.field.Obs()).compute_single(data, 0, verif.axis.Threshold(), None, _mk(inp.iv))

    def post(S, inp, out):
        inside = _member_arr(S, inp.x, inp.iv)
        n_in = S.count_where(inp.x, inside)
        cond = _cond_array(S, inp.x, inp.iv)
        goals = [("no-value-in-the-event-gives-nan", S.implies(S.same(n_in, 0), S.isnan(out)))]
        if which == "Conditional":
            want = S.mean(S.filtered(inp.y, cond))
        elif which == "XConditional":
            want = S.fn("median", S.filtered(inp.x, cond), ())
        else:
            want = S.to_num(n_in)
        goals.append(("statistic-over-exactly-the-values-in-the-event(missing-in-no-event)", S.implies(S.not_(S.same(n_in, 0)), S.same(out, want))))
        return goals
    return setup, call, post


for _w in ("Conditional", "XConditional", "Count"):
    s, c, p = _conditional(_w)
    fn = "verif.metric.%s.%s" % (_w, "compute_single" if _w == "Count" else "compute_from_obs_fcst")
    register(Obligation(fn + "#POST:definition", ("C05", "C04", "C07"), s, c, p, modules=MOD, functions=[fn]))


# ------------------------------------------------------------------ Metric.compute (map loop over slices)
def _metric_compute():
    class _D(object):
        def __init__(self, n):
            self.n = n

        def get_axis_size(self, axis):
            return self.n

    def setup(G):
        return Bag(vals=G.array("vals", ("k",), kinds=ALL_KINDS))

    def call(inp):
        m = verif.metric.Mae()
        vals = inp.vals
        seen = []

        def single(data, input_index, axis, axis_index, interval):
            seen.append((input_index, axis, interval))
            return vals[axis_index]
        m.compute_single = single
        inp.seen = seen
        n = vals.shape[0] if hasattr(vals, "axes") else len(vals)
        return m.compute(_D(n), 2, verif.axis.Leadtime(), "IV")

    def post(S, inp, out):
        goals = []
        if S.symbolic:
            from pyvc.sym import CTX
            loops = [l for l in CTX.loops if l[0] is not None]
            if not loops:
                return [("empty-axis", S.same(S.length(inp.vals), 0))]
            k = loops[0][0]
            idx = (k,)
            v, r = inp.vals.at(idx), out.at(idx)
            goals.append(("score-of-slice-k-is-stored-at-k", S.same(r, v)))
        else:
            for k in range(len(inp.vals)):
                v, r = inp.vals[k], out[k]
                goals.append(("score-of-slice-k-is-stored-at-k", S.same(r, v)))
        goals.append(("compute_single-receives-input,axis,interval", all(s == (2, verif.axis.Leadtime(), "IV") for s in inp.seen)))
        return goals
    return setup, call, post


s, c, p = _metric_compute()
register(Obligation("verif.metric.Metric.compute#POST:one-score-per-slice", ("C12", "C05"), s, c, p, modules=MOD))
