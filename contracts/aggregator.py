"""Contracts for verif/aggregator.py and the -T pre-aggregation of verif/data.py (C15)."""
import numpy as _np

import verif.aggregator
import verif.data
import verif.axis

from pyvc import sym
from pyvc.framework import Obligation, register, Bag, FIN, NAN, PINF, NINF, ALL_KINDS
from .metric_det import DualAgg

MOD = [verif.aggregator, verif.util, verif.data]


def _var(np, x, axis):
    m = np.mean(x, axis=axis)
    if axis is None:
        return np.mean((x - m) ** 2)
    raise NotImplementedError


# name -> statistic written independently over the dual numpy module (np = shim or the installed NumPy)
STAT = {
    "mean": lambda np, S, x, axis: np.mean(x, axis=axis),
    "median": lambda np, S, x, axis: np.median(x, axis=axis),
    "min": lambda np, S, x, axis: np.min(x, axis=axis),
    "max": lambda np, S, x, axis: np.max(x, axis=axis),
    "std": lambda np, S, x, axis: np.sqrt(np.var(x, axis=axis)),
    "variance": lambda np, S, x, axis: np.var(x, axis=axis),
    "iqr": lambda np, S, x, axis: np.percentile(x, 75, axis=axis) - np.percentile(x, 25, axis=axis),
    "range": lambda np, S, x, axis: np.max(x, axis=axis) - np.min(x, axis=axis),
    "count": lambda np, S, x, axis: np.sum(np.isnan(x) == 0, axis=axis),
    "sum": lambda np, S, x, axis: np.sum(x, axis=axis),
    "meanabs": lambda np, S, x, axis: np.mean(abs(x), axis=axis),
    "absmean": lambda np, S, x, axis: abs(np.mean(x, axis=axis)),
}


def _agg(name, axes, axis, q=None):
    def setup(G):
        return Bag(x=G.array("x", axes, kinds=(FIN, NAN), min_size=1))

    def call(inp):
        a = verif.aggregator.Quantile(q) if name == "quantile" else verif.aggregator.get(name)
        return a(inp.x, axis=axis) if axis is not None else a(inp.x)

    def post(S, inp, out):
        np = S.np
        if name == "quantile":
            want = np.percentile(inp.x, q * 100, axis=axis)
        else:
            want = STAT[name](np, S, inp.x, axis)
        if axis is None or len(axes) == 1:
            return [("the-documented-statistic-of-the-values-given", S.same(out, want))]
        return [("the-documented-statistic-along-the-requested-dimension", S.same_array(out, want))]
    return setup, call, post


for _name in sorted(STAT) + ["quantile"]:
    for _axes, _axis, _tag in ((("n",), None, "1d"), (("t", "l", "s"), 1, "3d,axis=1"), (("t", "l", "s", "e"), 3, "4d,axis=3"), (("t", "l", "s"), 0, "3d,axis=0")):
        s, c, p = _agg(_name, _axes, _axis, q=0.3 if _name == "quantile" else None)
        register(Obligation("verif.aggregator.%s.__call__#POST:%s" % (_name.capitalize(), _tag), ("C15", "C05"), s, c, p, modules=MOD,
                            functions=["verif.aggregator.%s.__call__" % _name.capitalize()]))
# quantile levels that are not a whole number of percent, and the two ends
for _q in (0.025, 0.125, 0.975, 0.0, 1.0):
    s, c, p = _agg("quantile", ("n",), None, q=_q)
    register(Obligation("verif.aggregator.Quantile.__call__#POST:1d,level=%g" % _q, ("C15", "C05"), s, c, p, modules=MOD,
                        functions=["verif.aggregator.Quantile.__call__"]))


def _change(name, axes, axis):
    absolute = name == "abschange"

    def setup(G):
        return Bag(x=G.array("x", axes, kinds=(FIN, NAN), min_size=1))

    def call(inp):
        a = verif.aggregator.get(name)
        return a(inp.x, axis=axis) if axis is not None else a(inp.x)

    def post(S, inp, out):
        x = inp.x
        n = S.length_along(x, axis if axis is not None else 0)

        def want_at(rest):
            first = S.at(x, rest[:axis] + (0,) + rest[axis:]) if axis is not None else S.at(x, (0,))
            last = S.at(x, rest[:axis] + (n - 1,) + rest[axis:]) if axis is not None else S.at(x, (n - 1,))
            d = last - first
            return abs(d) if absolute else d
        if axis is None:
            return [("last-minus-first", S.same(out, want_at(())))]
        return [("last-minus-first-along-the-requested-dimension", S.forall(out, lambda i: S.same(S.at(out, i), want_at(tuple(i)))))]
    return setup, call, post


for _name in ("change", "abschange"):
    for _axes, _axis, _tag in ((("n",), None, "1d"), (("t", "l", "s"), 0, "3d,axis=0"), (("t", "l", "s"), 1, "3d,axis=1"), (("t", "l", "s"), 2, "3d,axis=2"),
                               (("t", "l", "s", "e"), 3, "4d,axis=3")):
        s, c, p = _change(_name, _axes, _axis)
        register(Obligation("verif.aggregator.%s.__call__#POST:%s" % ("Change" if _name == "change" else "AbsChange", _tag), ("C15",), s, c, p, modules=MOD,
                            functions=["verif.aggregator.%s.__call__" % ("Change" if _name == "change" else "AbsChange")]))


def _quantile_range():
    def setup(G):
        return Bag(q=G.num("q", numpy=False))

    def call(inp):
        return verif.aggregator.Quantile(inp.q)

    def post(S, inp, out):
        return [("accepted-only-within-[0,1]", S.and_(inp.q >= 0, inp.q <= 1))]

    def raises(S, inp, outcome):
        return [("error-exit-only-outside-[0,1]", S.and_(outcome.kind == "abort", S.or_(inp.q < 0, inp.q > 1)))]
    return setup, call, post, raises


s, c, p, r = _quantile_range()
register(Obligation("verif.aggregator.Quantile.__init__#POST:level-within-[0,1]", ("C15", "C13"), s, c, p, raises=r, modules=MOD))


# ------------------------------------------------------------------ trailing-window pre-aggregation
class ProbeAgg(DualAgg):
    """the aggregator handed to preaggregate: uninterpreted under shadow execution; in concrete runs an interpretation that
    shows which elements it was given (median + 1000 * number of values + 10^6 * number of missing values), so that a window
    that is off by one element, or a value passed through without being aggregated, changes the result"""
    def __init__(self):
        def real(array, axis=None):
            a = _np.asarray(array, float)
            with _np.errstate(all="ignore"):
                import warnings
                with warnings.catch_warnings():
                    warnings.simplefilter("ignore")
                    med = _np.nan_to_num(_np.nanmedian(a, axis=axis))
            return med + 1000.0 * _np.sum(~_np.isnan(a), axis=axis) + 1e6 * _np.sum(_np.isnan(a), axis=axis)
        self.real = real


def _preagg(which):
    fn = getattr(verif.data, "preaggregate_" + which)
    dim = 1 if which == "leadtime" else 0

    def setup(G):
        x = G.array("x", ("t", "l", "s"), kinds=(FIN, NAN), min_size=1)
        coords = G.array("coords", ("l",) if which == "leadtime" else ("t",), kinds=(FIN,), min_size=1,
                         grid=[0.0, 1.0, 2.0, 3.0, 6.0, 12.0] if which == "leadtime" else [0.0, 3600.0, 7200.0, 10800.0, 21600.0])
        G.assume_sorted(coords)
        h = G.num("h", integer=True, numpy=False, grid=[1, 2, 3, 6])
        G.assume(h > 0)
        return Bag(x=x, x0=x.copy(), coords=coords, h=h, agg=ProbeAgg())

    def call(inp):
        return fn(inp.x, inp.coords, inp.agg, inp.h)

    def post(S, inp, out):
        width = inp.h if which == "leadtime" else inp.h * 3600
        goals = []
        for k in S.loop_indices(inp.coords):
            ck = S.at(inp.coords, (k,))
            for a, b in S.two_generic(inp.x0, dim):
                series = S.series_along(inp.x0, dim, a, b)
                window = S.window(series, inp.coords, lambda cj: S.and_(cj > ck - width, cj <= ck))
                got = S.at(out, (a, k, b)) if dim == 1 else S.at(out, (k, a, b))
                goals.append(("element-%s-is-the-aggregate-of-the-same-series-over-the-trailing-window-(c-h,c]" % which, S.same(got, inp.agg(window))))
        goals.append(("FRAME:input-array-not-modified", S.forall(inp.x0, lambda i: S.same(S.at(inp.x, i), S.at(inp.x0, i)))))
        return goals
    return setup, call, post


for _w in ("leadtime", "time"):
    s, c, p = _preagg(_w)
    register(Obligation("verif.data.preaggregate_%s#POST:trailing-window" % _w, ("C15",), s, c, p, modules=MOD,
                        assumptions=["C15: the coordinate vector handed to preaggregate is strictly ascending (text inputs sort it; stated precondition)"]))
