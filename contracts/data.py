"""Contracts for verif/data.py (C01, C02, C03, C14, C18, C11, C15)."""
import verif.data

from pyvc import ext

DATA_PROPS = ("C01", "C02", "C03", "C14", "C18")
for _name in ("__init__", "get_scores", "_get_score", "_get_common_indices", "_apply_axis", "get_axis_values",
              "get_axis_descriptions", "preaggregate", "_get_times", "_get_leadtimes", "_get_locations"):
    ext.register_ext("verif.data.Data.%s" % _name, (lambda n=_name: verif.data.Data.__dict__[n]), DATA_PROPS)
for _name in ("preaggregate_time", "preaggregate_leadtime"):
    ext.register_ext("verif.data.%s" % _name, (lambda n=_name: getattr(verif.data, n)), ("C15",))
