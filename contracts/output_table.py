"""Contracts for the text / csv outputs of verif/output.py (C12)."""
import contextlib
import io
import itertools
import os
import tempfile

import numpy as _np

import verif.output
import verif.axis
import verif.util
import verif.interval
import verif.metric

from pyvc import sym
from pyvc.framework import Obligation, register, Bag, FIN, NAN, PINF, NINF, ALL_KINDS, bounded_obligation
from .axis import _enumerated

MOD = [verif.output, verif.util, verif.interval]


def _complete(d, n_inputs, clim):
    """attributes the real constructor sets that this hand-built Data object does not (see contracts/data.py)"""
    from .data import _complete_from_constructor
    _complete_from_constructor(d, n_inputs, clim, [True] * (n_inputs + (1 if clim else 0)), False, False, None)


class TableData(object):
    def __init__(self, xvals, names):
        self.xvals, self.names = xvals, names
        self.num_inputs = len(names)

    def get_axis_values(self, axis):
        return self.xvals

    def get_legend(self):
        return list(self.names)

    def get_axis_size(self, axis):
        return len(self.xvals)

    def get_axis_descriptions(self, axis):
        return {axis.name(): self.xvals}


class TableMetric(verif.metric.Metric):
    description = "stub"

    def __init__(self, scores, intervals_seen):
        self.scores = scores            # scores[f][k]: array of scores for input f and interval k
        self.seen = intervals_seen

    def compute(self, data, input_index, axis, interval):
        k = len([1 for (f, iv) in self.seen if f == input_index])
        self.seen.append((input_index, interval))
        return self.scores[input_index][k]


# ------------------------------------------------------------------ _get_x_y on a data dimension: rows symbolic
def _xy_rows(F, thresholds, acc):
    nint = 1 if thresholds is None else len(thresholds) - 1

    def setup(G):
        x = G.array("xvals", ("x",), kinds=(FIN,), min_size=1)
        # with -acc only finite or missing scores (running sums of +-inf overflow in floating point: outside A1)
        # (grid of the concrete cross-check: values that single precision cannot hold, so a table kept in float32 is visible)
        scores = [[G.array("sc_%d_%d" % (f, k), ("x",), kinds=(FIN, NAN) if acc else ALL_KINDS, min_size=1, grid=[0.0, 1.0 / 3, 1.00000496, 2.5, -1.00050001])
                   for k in range(nint)] for f in range(F)]
        return Bag(x=x, scores=scores, seen=[])

    def call(inp):
        m = TableMetric(inp.scores, inp.seen)
        pl = verif.output.Standard(m)
        pl.thresholds = thresholds
        pl.bin_type = "within"
        pl.show_acc = acc
        data = TableData(inp.x, ["file%d" % f for f in range(F)])
        return pl._get_x_y(data, verif.axis.Leadtime())

    def post(S, inp, out):
        x, y, xname, ynames, descs = out
        want_iv = verif.util.get_intervals("within", thresholds)
        goals = [("x-is-the-axis-values,labels-are-the-legend-in-input-order,no-custom-descriptors",
                  S.and_(x is inp.x, list(ynames) == ["file%d" % f for f in range(F)], descs is None, xname == "Leadtime")),
                 ("every-input-is-scored-for-every-interval-in-order",
                  [f for f, iv in inp.seen] == [f for f in range(F) for k in range(nint)] and
                  all(iv == want_iv[i % nint] for i, (f, iv) in enumerate(inp.seen)))]
        for f in range(F):
            def avg(r, f=f):
                tot = 0.0
                for k in range(nint):
                    tot = tot + S.at(inp.scores[f][k], (r,))
                return tot / nint

            if not acc:
                goals.append(("column-%d-row-r-is-the-mean-over-the-intervals-of-input-%d's-scores" % (f, f),
                              S.forall(inp.x, lambda i, f=f: S.same(S.at(y, (i[0], f)), avg(i[0])))))
            else:
                def body(i, f=f):
                    # running sum along the axis of the scores with missing ones counted as 0
                    want = S.sum_prefix(inp.x, i[0], lambda j: S.nan_to_zero(avg(j)))
                    return S.same(S.at(y, (i[0], f)), want)
                goals.append(("column-%d-row-r-is-the-running-sum-up-to-r(missing-scores-add-nothing)" % f, S.forall(inp.x, body)))
        return goals
    return setup, call, post


for _F, _thr, _acc, _tag in ((1, None, False, "F=1,no-thresholds"), (2, None, False, "F=2,no-thresholds"), (2, [1.0, 2.0, 5.0], False, "F=2,two-intervals-averaged"),
                             (3, [0.0, 1.0], False, "F=3,one-interval"), (2, None, True, "F=2,-acc"), (2, [1.0, 2.0, 5.0], True, "F=2,two-intervals,-acc")):
    s, c, p = _xy_rows(_F, _thr, _acc)
    register(Obligation("verif.output.Standard._get_x_y#POST:%s" % _tag, ("C12",), s, c, p, modules=MOD, functions=["verif.output.Standard._get_x_y"]))


# ------------------------------------------------------------------ _get_x_y on threshold-like axes and time-like axes: bounded
def _xy_threshold():
    def body():
        cases = 0
        for axis in (verif.axis.Threshold(), verif.axis.Obs(), verif.axis.Fcst()):
            for bin_type, thresholds in (("above", [1.0]), ("above", [1.0, 2.0, 5.0]), ("below=", [0.0, 3.0]), ("within", [0.0, 1.0, 4.0]), ("within=", [2.0, 3.0]),
                                        # thresholds are reported in the order given, not sorted
                                        ("above", [5.0, 1.0, 3.0]), ("below", [3.0, 0.0]), ("above=", [2.0, 2.0, 1.0])):
                for F in (1, 2, 3):
                    for acc in (False, True):
                        ivs = verif.util.get_intervals(bin_type, thresholds)
                        # scores that single precision cannot hold (1/3, 1.00000496, 1.00050001): the table must carry them unrounded
                        vals = [[_np.array([10.0 * f + k + (1.0 / 3, 1.00000496, 1.00050001)[(f + k) % 3]]) if (f + k) % 4 != 3 else _np.array([_np.nan])
                                 for k in range(len(ivs))] for f in range(F)]
                        seen = []
                        pl = verif.output.Standard(TableMetric(vals, seen))
                        pl.thresholds, pl.bin_type, pl.show_acc = thresholds, bin_type, acc
                        data = TableData([0], ["n%d" % f for f in range(F)])
                        cases += 1
                        try:
                            with contextlib.redirect_stdout(io.StringIO()):
                                x, y, xname, ynames, descs = pl._get_x_y(data, axis)
                        except Exception as e:
                            return cases, {"axis": axis.name(), "bin_type": bin_type, "thresholds": thresholds, "F": F, "raised": "%s: %s" % (type(e).__name__, e)}
                        want = _np.array([[vals[f][k][0] for f in range(F)] for k in range(len(ivs))])
                        if acc:
                            want = _np.cumsum(_np.nan_to_num(want), axis=0)
                        ok = (list(x) == [iv.center for iv in ivs] and y.shape == want.shape and y.dtype == _np.float64 and
                              all((_np.isnan(a) and _np.isnan(b)) or a == b for a, b in zip(y.flatten(), want.flatten())) and
                              [iv for f, iv in seen] == [iv for f in range(F) for iv in ivs] and list(ynames) == ["n%d" % f for f in range(F)])
                        if not ok:
                            return cases, {"axis": axis.name(), "bin_type": bin_type, "thresholds": thresholds, "F": F, "acc": acc, "got": y.tolist(), "want": want.tolist()}
        return cases, None
    return body


_enumerated("verif.output.Standard._get_x_y#BOUNDED:threshold-like-axes(one-row-per-interval-in-the-given-order)", ("C12",),
            "axes threshold/obs/fcst x 8 bin-type/threshold lists (ascending, descending, unordered, repeated) x F in 1..3 x with/without -acc, stub metric with one score per (input, interval)",
            _xy_threshold(), ["verif.output.Standard._get_x_y"])


# ------------------------------------------------------------------ writers: bounded
VALUES = [0.0, 1.0, -1.0, 1.0 / 3, 123456.789, 1e-7, 1e12, float("nan"), float("inf"), float("-inf"), 0.00012345678]


def _fmt_table(kind, descs, labels, y):
    """independent rendering of the documented format"""
    rows = []
    if kind == "csv":
        rows.append(",".join(list(descs.keys()) + list(labels)))
        for i in range(y.shape[0]):
            rows.append(",".join([str(descs[k][i]) for k in descs] + ["%g" % v for v in y[i, :]]))
        return "\n".join(rows).strip()
    lengths = [max(11, len(l) + 1) for l in labels]
    dl = {k: max(20, len(k) + 1) for k in descs}
    line = "".join(k.ljust(dl[k]) + "| " for k in descs) + "".join(l.ljust(n) + "| " for l, n in zip(labels, lengths))
    rows.append(line)
    for i in range(y.shape[0]):
        line = ""
        for k in descs:
            v = descs[k][i]
            line += (v if isinstance(v, str) else "%g" % v).ljust(dl[k]) + "| "
        for f in range(y.shape[1]):
            line += ("%.4g" % y[i, f]).ljust(lengths[f]) + "| "
        rows.append(line)
    return "\n".join(rows).strip()


def _writers():
    def body():
        cases = 0
        import random
        rnd = random.Random(int(os.environ.get("VERIF_SEED", "0")))
        tmp = tempfile.mkdtemp(prefix="pyvc.out.", dir="/var/tmp")
        try:
            for kind in ("csv", "text"):
                for nrows in (1, 2, 3):
                    for F in (1, 2, 3):
                        for rep in range(12):
                            y = _np.array([[rnd.choice(VALUES) for f in range(F)] for r in range(nrows)], float)
                            labels = ["file%d" % f if rep % 2 else "a_rather_long_legend_name_%d" % f for f in range(F)]
                            for descs in ({"Leadtime": [float(3 * r) for r in range(nrows)]},
                                          {"id": [10 + r for r in range(nrows)], "lat": [60.5 + r for r in range(nrows)], "lon": [10.25] * nrows, "elev": [100.0 * r for r in range(nrows)]},
                                          {"Time": ["2012-01-0%d 00:00:00" % (r + 1) for r in range(nrows)]}):
                                for to_file in (False, True):
                                    pl = verif.output.Standard(verif.metric.Mae())
                                    pl._get_x_y = lambda data, axis, y=y, labels=labels, descs=descs: (list(range(nrows)), y, "x", labels, descs)
                                    fn = os.path.join(tmp, "o.txt")
                                    if os.path.exists(fn):
                                        os.unlink(fn)
                                    pl.filename = fn if to_file else None
                                    buf = io.StringIO()
                                    with contextlib.redirect_stdout(buf):
                                        getattr(pl, kind)(None)
                                    cases += 1
                                    want = _fmt_table(kind, descs, labels, y)
                                    if to_file:
                                        got = open(fn).read()
                                        ok = got == want + "\n" and buf.getvalue() == ""
                                    else:
                                        got = buf.getvalue()
                                        ok = got == want + "\n" and not os.path.exists(fn)
                                    if not ok:
                                        return cases, {"type": kind, "to_file": to_file, "y": y.tolist(), "got": got[:300], "want": want[:300]}
        finally:
            import shutil
            shutil.rmtree(tmp, ignore_errors=True)
        return cases, None
    return body


_enumerated("verif.output.Output.csv+text#BOUNDED:header,rows,precision,-f", ("C12",),
            "tables of 1..3 rows x 1..3 columns with values drawn (seeded) from {0, +-1, 1/3, 123456.789, 1e-7, 1e12, 1.2345678e-4, NaN, +-inf}, three kinds of "
            "row descriptors, with and without -f: compared character by character with an independent rendering (csv: %g, text: %.4g, padded columns)",
            _writers(), ["verif.output.Output.csv", "verif.output.Output.text"])


# ------------------------------------------------------------------ row descriptors (Data.get_axis_descriptions, get_legend / names)
def _descriptors():
    import datetime
    import verif.data
    import verif.location
    from .axis import local_timezone

    def body():
        cases = 0
        for tz in ("UTC", "PST8", "CET-1"):
            with local_timezone(tz):
                d = object.__new__(verif.data.Data)
                _complete(d, 1, None)
                d.times = _np.array([1325376000, 1325397600, 1330473600 + 3600, 1356998399, 4102444800 - 86400], int)   # 2012-01-01 00/06, 2012-02-29 01, 2012-12-31 23:59:59, 2099-12-31
                d.leadtimes = _np.array([0.0, 6.0, 30.5])
                d.locations = [verif.location.Location(3, 60.5, 10.25, 100.0), verif.location.Location(18, -33.0, 151.0, 5.0)]
                for axis in (verif.axis.Time(), verif.axis.Day(), verif.axis.Month(), verif.axis.Year(), verif.axis.Week()):
                    got = d.get_axis_descriptions(axis)
                    vals = d.get_axis_values(axis)
                    want = {axis.name(): [(datetime.datetime(1970, 1, 1) + datetime.timedelta(seconds=int(v))).strftime(axis.fmt) for v in vals]}
                    cases += 1
                    if got != want:
                        return cases, {"axis": axis.name(), "local-time-zone-of-the-process": tz, "got": got, "want": want}
                for axis in (verif.axis.Location(), verif.axis.Lat(), verif.axis.Lon(), verif.axis.Elev()):
                    got = d.get_axis_descriptions(axis)
                    want = {"id": [3, 18], "lat": [60.5, -33.0], "lon": [10.25, 151.0], "elev": [100.0, 5.0]}
                    cases += 1
                    if got != want:
                        return cases, {"axis": axis.name(), "got": got, "want": want}
                for axis in (verif.axis.Leadtime(), verif.axis.Leadtimeday(), verif.axis.Timeofday(), verif.axis.Monthofyear(), verif.axis.No()):
                    got = d.get_axis_descriptions(axis)
                    vals = d.get_axis_values(axis)
                    cases += 1
                    if list(got.keys()) != [axis.name()] or list(got[axis.name()]) != list(vals):
                        return cases, {"axis": axis.name(), "got": str(got), "want": str({axis.name(): list(vals)})}
        # legend / names: legend if given, the climatology is never a column
        class _In(object):
            def __init__(self, n):
                self.fullname = "/some/dir/%s.txt" % n
                self.name = "%s.txt" % n
                self.shortname = n
        for clim in (False, True):
            for legend in (None, ["L1", "L2"]):
                d = object.__new__(verif.data.Data)
                _complete(d, 2, "subtract" if clim else None)
                d._inputs = [_In("a"), _In("b")] + ([_In("clim")] if clim else [])
                d._clim = d._inputs[-1] if clim else None
                d._legend = legend
                cases += 1
                ok = (d.get_names() == ["a.txt", "b.txt"] and d.get_short_names() == ["a", "b"] and d.get_full_names() == ["/some/dir/a.txt", "/some/dir/b.txt"]
                      and d.get_legend() == (legend or ["a.txt", "b.txt"]) and d._get_num_inputs() == 2)
                if not ok:
                    return cases, {"clim": clim, "legend": legend, "names": d.get_names(), "legend-returned": d.get_legend(), "num_inputs": d._get_num_inputs()}
        return cases, None
    return body


_enumerated("verif.data.Data.get_axis_descriptions+get_legend#BOUNDED:row-descriptors-and-column-labels", ("C12", "C14", "C11"),
            "five time-like, four location-like and five other axes on a small dataset, with the process in three local time zones (the labels are UTC dates); "
            "names / legend with and without climatology and -leg",
            _descriptors(), ["verif.data.Data.get_axis_descriptions", "verif.data.Data.get_legend", "verif.data.Data.get_names", "verif.data.Data.get_axis_values"])


# ------------------------------------------------------------------ the values along each -x dimension (Data.get_axis_values / get_axis_size)
def _axis_values():
    import verif.data
    import verif.location
    from .axis import BUCKET_SPEC, civil_from_days, local_timezone

    def body():
        cases = 0
        times = [1325376000, 1325397600, 1330473600 + 3600, 1330473600 + 7200, 1356998399, -86400 * 400 + 1800, 4102444800 - 86400]
        leads = [0.0, 6.0, 13.0, 30.5, 47.0, 71.5]
        locs = [(3, 60.5, 10.25, 100.0), (18, -33.0, 151.0, 5.0), (7, 60.5, -10.25, 100.0)]
        for tz in ("UTC", "PST8"):
            with local_timezone(tz):
                d = object.__new__(verif.data.Data)
                _complete(d, 1, None)
                d.times = _np.array(times, int)
                d.leadtimes = _np.array(leads)
                d.locations = [verif.location.Location(*l) for l in locs]
                want = {"Time": list(times), "Leadtime": list(leads), "Leadtimeday": sorted(set(int(l // 24) for l in leads)), "No": [0],
                        "Location": [l[0] for l in locs], "Lat": [l[1] for l in locs], "Lon": [l[2] for l in locs], "Elev": [l[3] for l in locs]}
                for name, spec in BUCKET_SPEC.items():
                    vals = set()
                    for t in times:
                        z, sod = t // 86400, t % 86400
                        y, m, dd = civil_from_days(z)
                        vals.add(float(spec(z, sod, y, m, dd)))
                    want[name] = sorted(vals)
                for name, w in want.items():
                    axis = getattr(verif.axis, name)()
                    cases += 1
                    try:
                        got = d.get_axis_values(axis)
                        n = d.get_axis_size(axis)
                    except Exception as e:
                        return cases, {"axis": name, "raised": "%s: %s" % (type(e).__name__, e)}
                    if [float(x) for x in got] != [float(x) for x in w] or n != len(w):
                        return cases, {"axis": name, "local-time-zone-of-the-process": tz, "got": [float(x) for x in got], "size": n, "want": [float(x) for x in w]}
        return cases, None
    return body


_enumerated("verif.data.Data.get_axis_values+get_axis_size#BOUNDED:the-slices-of-every-dimension", ("C11", "C12"),
            "all 16 -x dimensions on one dataset (7 initialisation times incl. one before 1970 and two in the same hour of a leap day, 6 lead times "
            "around the 24 h boundaries, 3 locations two of which share a latitude and an elevation), process in UTC and PST8: time-derived "
            "dimensions = the distinct calendar buckets in ascending order, lead-time day = whole 24 h periods, location-like = one value per location in location order",
            _axis_values(), ["verif.data.Data.get_axis_values", "verif.data.Data.get_axis_size"])


# ------------------------------------------------------------------ text / csv along the threshold-like axes: rows labelled by the thresholds as given
def _threshold_tables():
    def body():
        cases = 0
        for axis, head in ((verif.axis.Threshold(), "Threshold"), (verif.axis.Obs(), "Observed"), (verif.axis.Fcst(), "Forecasted")):
            for bin_type, thresholds in (("above", [1.5, 2.5, 3.5]), ("above", [5.0, 1.0, 3.0]), ("below=", [2.0]), ("within", [0.0, 1.0, 4.0]), ("above=", [3.0, 3.0, 1.0]), ("above", None)):
                for F in (1, 2):
                    ivs = verif.util.get_intervals(bin_type, thresholds)
                    vals = [[_np.array([10.0 * f + k + (1.0 / 3, 1.00000496, 2.5)[(f + k) % 3]]) if (f + k) % 4 != 3 else _np.array([_np.nan]) for k in range(len(ivs))] for f in range(F)]
                    for kind in ("csv", "text"):
                        pl = verif.output.Standard(TableMetric(vals, []))
                        pl.thresholds, pl.bin_type, pl.axis, pl.filename = thresholds, bin_type, axis, None
                        data = TableData([0], ["n%d" % f for f in range(F)])
                        buf = io.StringIO()
                        cases += 1
                        try:
                            with contextlib.redirect_stdout(buf):
                                getattr(pl, kind)(data)
                        except Exception as e:
                            return cases, {"axis": axis.name(), "type": kind, "thresholds": thresholds, "raised": "%s: %s" % (type(e).__name__, e)}
                        lines = buf.getvalue().strip().split("\n")
                        rows = [[c.strip() for c in (l.split(",") if kind == "csv" else l.split("|"))] for l in lines]
                        rows = [[c for c in r if c != ""] for r in rows]
                        fmt = "%g" if kind == "csv" else "%.4g"
                        want = []
                        for k in range(len(ivs)):
                            # one row per interval in the order given; the leading field is the threshold the user wrote at that position
                            lab = "All" if thresholds is None else (str(thresholds[k]) if kind == "csv" else "%g" % thresholds[k])
                            want.append([lab] + [fmt % vals[f][k][0] for f in range(F)])
                        head_want = [head] + ["n%d" % f for f in range(F)]
                        if rows[1:] != want or rows[0] != head_want:
                            return cases, {"axis": axis.name(), "type": kind, "bin_type": bin_type, "thresholds": thresholds, "F": F, "printed": lines, "want-rows": want, "want-header": head_want}
        return cases, None
    return body


_enumerated("verif.output.Output.csv+text#BOUNDED:threshold-like-axes,rows-labelled-by-the-thresholds-as-given", ("C12",),
            "axes threshold/obs/fcst x 6 bin-type/threshold lists (ascending, unordered, single, repeated, none given) x 1..2 inputs x csv/text, real _get_x_y with a stub metric: "
            "header and every printed row against the thresholds in the order given and the scores at the format's precision",
            _threshold_tables(), ["verif.output.Output.csv", "verif.output.Output.text", "verif.output.Standard._get_x_y"])


# ------------------------------------------------------------------ -hist / -sort: the plotted frequencies and percentiles (recording pyplot stand-in)
class _RecPyplot(object):
    def __init__(self):
        self.lines = []

    def plot(self, x, y, *a, **kw):
        self.lines.append((list(x), list(y), kw.get("label")))

    def __getattr__(self, name):
        return lambda *a, **kw: None


class _HistData(object):
    def __init__(self, values, names):
        self.values, self.names = values, names
        self.num_inputs = len(values)
        import verif.variable
        self.variable = verif.variable.Variable("T", "K")

    def get_scores(self, field, f, axis=None, axis_index=None):
        return _np.array(self.values[f], float)

    def get_names(self):
        return list(self.names)

    get_legend = get_names


def _hist_sort():
    from pyvc import engine
    from .common import BIN_TYPES

    def member(bt, x, t, t2):
        return {"below": x < t, "below=": x <= t, "above": x > t, "above=": x >= t,
                "within": t2 is not None and t < x < t2, "=within": t2 is not None and t <= x < t2,
                "within=": t2 is not None and t < x <= t2, "=within=": t2 is not None and t <= x <= t2}[bt]

    def body():
        cases = 0
        values = [[0.0, 1.0, 1.0, 2.0, 2.5, 3.0, -1.0, 0.5], [3.0, 3.0, 0.0, 1.5]]
        thresholds = [0.0, 1.0, 2.0, 3.0]
        for bt in BIN_TYPES:
            two = "within" in bt
            pl = verif.output.Hist(verif.field.Obs())
            pl.thresholds, pl.bin_type = thresholds, bt
            rec = _RecPyplot()
            cases += 1
            with engine.patched(verif.output, mpl=rec):
                pl._plot_core(_HistData(values, ["a", "b"]))
            ivs = verif.util.get_intervals(bt, thresholds)
            for f, vals in enumerate(values):
                counts = []
                for k in range(len(ivs)):
                    t, t2 = thresholds[k], (thresholds[k + 1] if two else None)
                    counts.append(sum(1 for v in vals if member(bt, v, t, t2)))
                tot = float(sum(counts))
                want = [100.0 * c / tot for c in counts]
                if f >= len(rec.lines) or [round(v, 9) for v in rec.lines[f][1]] != [round(v, 9) for v in want] or rec.lines[f][0] != [iv.center for iv in ivs] or rec.lines[f][2] != ["a", "b"][f]:
                    return cases, {"output": "-hist", "bin_type": bt, "thresholds": thresholds, "values": vals, "plotted": rec.lines[f] if f < len(rec.lines) else None,
                                   "want-frequencies-in-percent": want}
        pl = verif.output.Sort(verif.field.Obs())
        rec = _RecPyplot()
        cases += 1
        with engine.patched(verif.output, mpl=rec):
            pl._plot_core(_HistData(values, ["a", "b"]))
        for f, vals in enumerate(values):
            want_x = sorted(vals)
            want_y = [100.0 * i / (len(vals) - 1) for i in range(len(vals))]
            if f >= len(rec.lines) or rec.lines[f][0] != want_x or [round(v, 9) for v in rec.lines[f][1]] != [round(v, 9) for v in want_y]:
                return cases, {"output": "-sort", "values": vals, "plotted": rec.lines[f] if f < len(rec.lines) else None, "want": [want_x, want_y]}
        return cases, None
    return body


_enumerated("verif.output.Hist+Sort._plot_core#BOUNDED:frequencies-per-documented-event-and-sorted-percentiles", ("C07", "C13"),
            "all eight bin types on four thresholds with values on the edges, two inputs; -sort on the same values; the arguments of pyplot.plot are recorded",
            _hist_sort(), ["verif.output.Hist._plot_core", "verif.output.Sort._plot_core"])
