#!/usr/bin/env python3
"""Mutant self-test of the verifier: every selftest/mutants/*.diff is applied to a scratch copy of /repo
(under /var/tmp, removed afterwards) and the named check must report what the header expects:

  # property: C06
  # expect: violation <fnmatch pattern of an obligation that must be REFUTED>     (repeatable)
  # expect: pass                                                                  (harmless refactor)
"""
import fnmatch, glob, os, re, shutil, subprocess, sys, tempfile
HERE = os.path.dirname(os.path.abspath(__file__))
VERIF = os.path.dirname(HERE)


def run_one(path, verbose=False):
    hdr = {"property": None, "expect": []}
    for line in open(path):
        m = re.match(r"#\s*(property|expect):\s*(.*)", line)
        if m:
            if m.group(1) == "property":
                hdr["property"] = m.group(2).strip()
            else:
                hdr["expect"].append(m.group(2).strip())
    scratch = tempfile.mkdtemp(prefix="pyvc.mut.", dir="/var/tmp")
    try:
        subprocess.run(["git", "-C", "/repo", "archive", "--format=tar", "HEAD"], check=True, stdout=open(scratch + "/r.tar", "wb"))
        subprocess.run(["tar", "-xf", "r.tar"], cwd=scratch, check=True)
        os.unlink(scratch + "/r.tar")
        p = subprocess.run(["patch", "-p1", "-s", "-i", path], cwd=scratch, capture_output=True, text=True)
        if p.returncode != 0:
            return False, "patch does not apply: " + p.stdout + p.stderr
        env = dict(os.environ, PYVC_REPO=scratch)
        out = subprocess.run([VERIF + "/check", hdr["property"], "--tier", "quick", "--no-evidence"], cwd=VERIF, env=env, capture_output=True, text=True)
        text = out.stdout + out.stderr
        refuted = re.findall(r"^REFUTED (\S+)", text, re.M)
        viol = re.findall(r"^VIOLATION property=(\S+)", text, re.M)
        ok = True
        msgs = []
        for e in hdr["expect"]:
            if e == "pass":
                if out.returncode != 0 or viol:
                    ok = False
                    msgs.append("expected pass, got exit %d, refuted %s" % (out.returncode, refuted))
            elif e.startswith("violation"):
                pat = e.split(None, 1)[1] if " " in e else "*"
                if out.returncode != 1 or not any(fnmatch.fnmatch(r, pat) for r in refuted):
                    ok = False
                    msgs.append("expected violation %s, got exit %d, refuted %s" % (pat, out.returncode, refuted))
        if verbose or not ok:
            msgs.append(text[-3000:])
        return ok, "; ".join(msgs)
    finally:
        shutil.rmtree(scratch, ignore_errors=True)


def main():
    pats = sys.argv[1:] or ["*"]
    files = sorted(f for f in glob.glob(HERE + "/mutants/*.diff") if any(fnmatch.fnmatch(os.path.basename(f), p + "*") or fnmatch.fnmatch(os.path.basename(f), p) for p in pats))
    bad = 0
    for f in files:
        ok, msg = run_one(f, verbose="-v" in sys.argv)
        print("%s %s %s" % ("ok  " if ok else "FAIL", os.path.basename(f), msg if not ok else ""))
        bad += (not ok)
    print("%d mutants, %d failed" % (len(files), bad))
    return 1 if bad else 0


if __name__ == "__main__":
    sys.exit(main())
