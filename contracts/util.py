"""Contracts for verif/util.py (C07: apply_threshold, apply_threshold_prob, get_intervals; C04: clean)."""
import verif.util
import verif.interval

from pyvc.framework import Obligation, register, Bag, FIN, NAN, PINF, NINF, ALL_KINDS
from .common import event, member, interval_table, BIN_TYPES, ONE_SIDED, TWO_SIDED, NOT_NAN

MOD = [verif.util, verif.interval]


# ------------------------------------------------------------------ apply_threshold
def _apply_threshold(bt):
    two = bt in TWO_SIDED

    def setup(G):
        # values may be infinite (a non-missing value like any other: +inf is above every threshold)
        x = G.array("x", ("n",), kinds=(FIN, NAN, PINF, NINF))
        inp = Bag(x=x, x0=x.copy(), t=G.num("t", kinds=(FIN,)))
        if two:
            inp.t2 = G.num("t2", kinds=(FIN,))
        return inp

    def call(inp):
        if two:
            return verif.util.apply_threshold(inp.x, bt, inp.t, inp.t2)
        return verif.util.apply_threshold(inp.x, bt, inp.t)

    def post(S, inp, out):
        def body(i):
            xi = S.at(inp.x0, i)
            ev = event(S, bt, xi, inp.t, inp.get("t2"))
            return S.and_(S.iff(S.isnan(S.at(out, i)), S.isnan(xi)),
                          S.implies(S.not_(S.isnan(xi)), S.same(S.at(out, i), S.ite(ev, 1.0, 0.0))))

        def frame(i):
            return S.same(S.at(inp.x, i), S.at(inp.x0, i))
        return [("nan-stays-nan,else-indicator-of-event", S.and_(S.same_domain(out, inp.x0), S.forall(inp.x0, body))),
                ("FRAME:input-array-not-modified", S.forall(inp.x0, frame))]
    return setup, call, post


for _bt in BIN_TYPES:
    s, c, p = _apply_threshold(_bt)
    register(Obligation("verif.util.apply_threshold#POST:%s" % _bt, ("C07",), s, c, p, modules=MOD))


def _apply_threshold_abort(bt):
    def setup(G):
        return Bag(x=G.array("x", ("n",), kinds=(FIN, NAN)), t=G.num("t"))

    def call(inp):
        return verif.util.apply_threshold(inp.x, bt, inp.t)

    def post(S, inp, out):
        return [("must-abort", False)]

    def raises(S, inp, outcome):
        return [("error-exit", outcome.kind == "abort")]
    return setup, call, post, raises


for _bt in TWO_SIDED:
    s, c, p, r = _apply_threshold_abort(_bt)
    register(Obligation("verif.util.apply_threshold#RAISES:%s-without-upper" % _bt, ("C07",), s, c, p, raises=r, modules=MOD))


# ------------------------------------------------------------------ apply_threshold_prob
def _apply_threshold_prob(bt):
    two = bt in TWO_SIDED

    def setup(G):
        inp = Bag(p=G.array("p", ("n",), kinds=(FIN, NAN)))
        if two:
            inp.p2 = G.array("p2", ("n",), kinds=(FIN, NAN))
        return inp

    def call(inp):
        if two:
            return verif.util.apply_threshold_prob(inp.p, bt, inp.p2)
        return verif.util.apply_threshold_prob(inp.p, bt)

    def post(S, inp, out):
        def body(i):
            p = S.at(inp.p, i)
            if bt in ("below", "below="):
                want = p
            elif bt in ("above", "above="):
                want = 1 - p
            else:
                want = S.at(inp.p2, i) - p
            return S.same(S.at(out, i), want)
        return [("probability-of-event-from-cdf", S.and_(S.same_domain(out, inp.p), S.forall(inp.p, body)))]
    return setup, call, post


for _bt in BIN_TYPES:
    s, c, p = _apply_threshold_prob(_bt)
    register(Obligation("verif.util.apply_threshold_prob#POST:%s" % _bt, ("C07", "C08"), s, c, p, modules=MOD))


# ------------------------------------------------------------------ get_intervals
def _get_intervals(bt, infinite_x=False):
    """interval k denotes exactly the documented event of thresholds k (and k+1): stated behaviourally, for every
    value x, so that any representation of the same event passes.  The clause for x = +-inf is kept apart: see
    known_findings.json (the one-sided intervals are built open at their infinite end)."""
    two = bt in TWO_SIDED

    def setup(G):
        return Bag(thr=G.array("thr", ("m",), kinds=(FIN,)), x=G.num("x", kinds=ALL_KINDS))

    def call(inp):
        return verif.util.get_intervals(bt, inp.thr)

    def post(S, inp, out):
        n = S.length(inp.thr)
        want_n = S.ite(n >= 1, n - 1, 0) if two else n
        goals = [("count", S.same(S.list_len(out), want_n))]
        x = inp.x
        for k, iv in S.loop_items(out):
            t = S.at(inp.thr, (k,))
            t2 = S.at(inp.thr, (k + 1,)) if two else None
            agree = S.iff(member(S, x, iv.lower, iv.upper, iv.lower_eq, iv.upper_eq), event(S, bt, x, t, t2))
            if infinite_x:
                goals = [("interval-k-is-the-documented-event[x=+-inf]", S.implies(S.isinf(x), agree))]
            else:
                goals.append(("interval-k-is-the-documented-event[finite-or-missing x]", S.implies(S.not_(S.isinf(x)), agree)))
        return goals
    return setup, call, post


for _bt in BIN_TYPES:
    for infinite_x in (False, True):
        s, c, p = _get_intervals(_bt, infinite_x)
        register(Obligation("verif.util.get_intervals#POST:%s%s" % (_bt, "[x=+-inf]" if infinite_x else ""), ("C07", "C12", "C06", "C13"),
                            s, c, p, modules=MOD, functions=["verif.util.get_intervals"]))


def _get_intervals_none():
    def setup(G):
        return Bag(x=G.num("x", kinds=ALL_KINDS))

    def call(inp):
        return verif.util.get_intervals("above", None)

    def post(S, inp, out):
        iv = out[0]
        return [("one-all-inclusive-interval", S.and_(len(out) == 1,
                 S.iff(member(S, inp.x, iv.lower, iv.upper, iv.lower_eq, iv.upper_eq), S.not_(S.isnan(inp.x)))))]
    return setup, call, post


s, c, p = _get_intervals_none()
register(Obligation("verif.util.get_intervals#POST:None", ("C07", "C06"), s, c, p, modules=MOD))


# ------------------------------------------------------------------ lemmas (no code: validities over the specs)
def _lemma(name, setup, goals, props=("C07",)):
    o = register(Obligation(name, props, setup, lambda inp: None, lambda S, inp, out: goals(S, inp), modules=[]))
    return o


def _l_cover():
    def setup(G):
        inp = Bag(x=G.num("x", kinds=ALL_KINDS), t0=G.num("t0"), t1=G.num("t1"), t2=G.num("t2"))
        G.assume(inp.t0 < inp.t1)
        G.assume(inp.t1 < inp.t2)
        return inp

    def goals(S, inp):
        e01 = event(S, "within=", inp.x, inp.t0, inp.t1)
        e12 = event(S, "within=", inp.x, inp.t1, inp.t2)
        e02 = event(S, "within=", inp.x, inp.t0, inp.t2)
        return [("consecutive-within=-disjoint", S.not_(S.and_(e01, e12))),
                ("consecutive-within=-cover-(first,last]", S.iff(S.or_(e01, e12), e02))]
    return setup, goals


s, g = _l_cover()
_lemma("C07.lemma#LEMMA:within=-partition", s, g)


def _l_complement():
    def setup(G):
        return Bag(x=G.num("x", kinds=ALL_KINDS), t=G.num("t"))

    def goals(S, inp):
        return [("above-is-complement-of-below=-on-non-missing",
                 S.implies(S.not_(S.isnan(inp.x)),
                           S.iff(event(S, "above", inp.x, inp.t), S.not_(event(S, "below=", inp.x, inp.t))))),
                ("missing-in-no-event", S.implies(S.isnan(inp.x), S.and_(
                    *[S.not_(event(S, bt, inp.x, inp.t, inp.t)) for bt in BIN_TYPES])))]
    return setup, goals


s, g = _l_complement()
_lemma("C07.lemma#LEMMA:complement-and-missing", s, g)


# ------------------------------------------------------------------ clean (C04)
class StubVar(object):
    """stand-in for a netCDF4 variable: v.shape, v[:] returns the stored masked array (assumed netCDF4 contract)"""
    def __init__(self, marr):
        self._m = marr

    @property
    def shape(self):
        return self._m.shape

    def __getitem__(self, key):
        return self._m[key]


def _clean(axes):
    def setup(G):
        x = G.array("x", axes, kinds=ALL_KINDS)
        m = G.array("m", axes, dtype="bool")
        # the masked array's own fill value (netCDF4: the variable's _FillValue / missing_value): any finite number
        fv = G.num("fill_value", kinds=(FIN,), grid=[-9999.0, 9.969209968386869e36, -999.0, 0.0, 1e20])
        return Bag(x=x, m=m, x0=x.copy(), fv=fv)

    def call(inp):
        if hasattr(inp.x, "axes"):
            import pyvc.shim_np as sh
            marr = sh.np_shim.ma.masked_array(inp.x, mask=inp.m)
            # the variable hands out its own storage: writes through v[:] would reach inp.x
            marr.store = inp.x.store
            marr.fill_value = inp.fv
        else:
            import numpy as np
            marr = np.ma.masked_array(inp.x, mask=inp.m, fill_value=float(inp.fv))
        return verif.util.clean(StubVar(marr))

    def post(S, inp, out):
        if S.symbolic and not hasattr(out, "axes"):
            # the early return for an empty one-dimensional variable: a real, empty ndarray
            return [("empty-1d-variable-gives-empty-array", S.and_(S.same(S.length(inp.x0), 0), len(out) == 0))]

        def body(i):
            x, r = S.at(inp.x0, i), S.at(out, i)
            missing = S.or_(S.at(inp.m, i), S.isnan(x), S.same(x, -999), x > 1e30)
            return S.and_(S.iff(S.isnan(r), missing), S.implies(S.not_(missing), S.same(r, x)))

        def frame(i):
            return S.same(S.at(inp.x, i), S.at(inp.x0, i))
        return [("every-encoding-of-missing-becomes-nan,other-values-unchanged", S.and_(S.same_domain(out, inp.x0), S.forall(inp.x0, body))),
                ("FRAME:variable-data-not-modified", S.forall(inp.x0, frame))]
    return setup, call, post


for _axes, _tag in ((("n",), "1d"), (("t", "l", "s"), "3d"), (("t", "l", "s", "e"), "4d")):
    s, c, p = _clean(_axes)
    register(Obligation("verif.util.clean#POST:%s" % _tag, ("C04", "C10"), s, c, p, modules=MOD, functions=["verif.util.clean"],
                        assumptions=["netCDF4: variable[:] returns the stored values as a numpy masked array (fill/valid_range cells masked) whose fill_value is some finite number"]))


def _clean_empty():
    def setup(G):
        return Bag(dummy=G.num("dummy"))

    def call(inp):
        import numpy as np
        return verif.util.clean(StubVar(np.ma.masked_array(np.zeros(0), mask=np.zeros(0, bool))))

    def post(S, inp, out):
        return [("empty-1d-variable-gives-empty-array", len(out) == 0)]
    return setup, call, post


s, c, p = _clean_empty()
register(Obligation("verif.util.clean#POST:empty", ("C04", "C10"), s, c, p, modules=MOD, functions=["verif.util.clean"]))
