"""LEMMA obligation: the reduction theory (lean/Reductions.lean) compiles with Lean 4 + Mathlib, without `sorry`
and with no axioms beyond propext / Classical.choice / Quot.sound.  The verdict is cached by file hash
(.cache/lean.stamp, written by setup.sh or by the first check that needs it)."""
import hashlib
import os
import re
import subprocess
import time

from . import framework

HERE = os.path.dirname(os.path.dirname(os.path.abspath(__file__)))
SRC = os.path.join(HERE, "lean", "Reductions.lean")
STAMP = os.path.join(HERE, ".cache", "lean.stamp")
ALLOWED = {"propext", "Classical.choice", "Quot.sound"}


def file_hash():
    return hashlib.sha256(open(SRC, "rb").read()).hexdigest()


def run_lean():
    t0 = time.time()
    p = subprocess.run(["lean", SRC], capture_output=True, text=True, timeout=1800)
    out = p.stdout + p.stderr
    ok = p.returncode == 0 and "sorry" not in open(SRC).read() and "error" not in out.lower()
    axioms = set(re.findall(r"[A-Za-z_.]+", " ".join(re.findall(r"depends on axioms: \[([^\]]*)\]", out))))
    ok = ok and axioms <= ALLOWED and not re.search(r"^\s*axiom\s", open(SRC).read(), re.M)
    return ok, out, time.time() - t0


def ensure():
    h = file_hash()
    if os.path.exists(STAMP) and open(STAMP).read().split()[:2] == [h, "ok"]:
        return True, "cached", 0.0
    ok, out, dt = run_lean()
    os.makedirs(os.path.dirname(STAMP), exist_ok=True)
    if ok:
        open(STAMP, "w").write("%s ok\n" % h)
    return ok, out[-2000:], dt


def register(props, rules):
    name = "lean.Reductions#LEMMA:%s" % "-".join(rules)

    def runner(o, timeout_ms=0, second=False):
        res = framework.ObResult(o.name)
        ok, out, dt = ensure()
        res.paths = 1
        res.goals.append(framework.GoalResult("lean-accepts-the-reduction-lemmas", "unsat" if ok else "unknown", dt, backend="lean4+mathlib", path=1,
                                              note="" if ok else out))
        res.status = "discharged" if ok else "error"
        res.note = "" if ok else out
        res.seconds = dt
        res.assumed = {"lean:" + r for r in rules}
        return res
    o = framework.Obligation(name, props, None, None, None, kind="LEMMA", functions=["lean/Reductions.lean"])
    o.runner = runner
    o.no_unroll = True
    if name not in framework.REGISTRY:
        framework.register(o)
    return o


if __name__ == "__main__":
    import sys
    ok, out, dt = ensure()
    print("lean Reductions.lean: %s (%.1fs)" % ("ok" if ok else "FAILED\n" + out, dt))
    sys.exit(0 if ok else 1)
