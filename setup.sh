#!/bin/sh
# offline setup: overlay venv (z3-solver, jsonschema from the wheelhouse) on top of /venv's packages
set -e
here="$(cd "$(dirname "$0")" && pwd)"
cd "$here"
if [ ! -x .venv/bin/python ]; then
  /venv/bin/python -m venv .venv
  PIP_NO_INDEX=1 .venv/bin/pip install -q --no-index --find-links /opt/veriftools/wheels z3-solver jsonschema
  echo "import site; site.addsitedir('/venv/lib/python3.12/site-packages')" > .venv/lib/python3.12/site-packages/zz_venv.pth
fi
PYTHONPATH=/repo MPLBACKEND=Agg .venv/bin/python -c "import z3, numpy, verif; print('pyvc setup ok', z3.get_version_string(), numpy.__version__)"
# reduction lemmas (Lean 4 + Mathlib): compile once, verdict cached by file hash
PYTHONPATH=/repo:"$here" MPLBACKEND=Agg .venv/bin/python -m pyvc.leancheck
