/-
Reduction theory used by pyvc's sum algebra (DESIGN.md 2.7).  `np.sum` of a float array is modelled as a
`Finset.sum` over `Fin n → ℝ` (assumptions A1/A2).  Checked by `lean` on every run that relies on a rule
(cached by file hash); the file must compile with every proof complete and without additional axioms.
-/
import Mathlib.Algebra.BigOperators.Group.Finset.Basic
import Mathlib.Algebra.BigOperators.Ring.Finset
import Mathlib.Algebra.BigOperators.Field
import Mathlib.Algebra.Order.BigOperators.Ring.Finset
import Mathlib.Algebra.Order.BigOperators.Group.Finset
import Mathlib.Data.Real.Basic
import Mathlib.Data.Fintype.BigOperators
import Mathlib.Tactic.Ring
import Mathlib.Tactic.Linarith
import Mathlib.Tactic.FieldSimp
import Mathlib.Data.List.Sort
open Finset BigOperators

variable {n K : ℕ}

/-- R1: linearity -/
theorem R1 (f g : Fin n → ℝ) (c : ℝ) : ∑ i, (f i + c * g i) = ∑ i, f i + c * ∑ i, g i := by
  rw [Finset.sum_add_distrib, Finset.mul_sum]

/-- R2: congruence: pointwise equal summands give equal sums -/
theorem R2 (f g : Fin n → ℝ) (h : ∀ i, f i = g i) : ∑ i, f i = ∑ i, g i :=
  Finset.sum_congr rfl (fun i _ => h i)

/-- R3: a sum of non-negative terms is non-negative, and dominates each of its terms -/
theorem R3 (f : Fin n → ℝ) (h : ∀ i, 0 ≤ f i) : 0 ≤ ∑ i, f i :=
  Finset.sum_nonneg (fun i _ => h i)

theorem R3_term (f : Fin n → ℝ) (h : ∀ i, 0 ≤ f i) (j : Fin n) : f j ≤ ∑ i, f i :=
  Finset.single_le_sum (fun i _ => h i) (Finset.mem_univ j)

/-- R3': monotonicity -/
theorem R3_mono (f g : Fin n → ℝ) (h : ∀ i, f i ≤ g i) : ∑ i, f i ≤ ∑ i, g i :=
  Finset.sum_le_sum (fun i _ => h i)

/-- R4: a sum of non-negative terms is zero iff every term is zero -/
theorem R4 (f : Fin n → ℝ) (h : ∀ i, 0 ≤ f i) : ∑ i, f i = 0 ↔ ∀ i, f i = 0 := by
  rw [Finset.sum_eq_zero_iff_of_nonneg (fun i _ => h i)]
  simp

/-- R5: filtering is multiplication by an indicator -/
theorem R5 (p : Fin n → Prop) [DecidablePred p] (f : Fin n → ℝ) :
    ∑ i ∈ univ.filter p, f i = ∑ i, (if p i then f i else 0) := by
  rw [Finset.sum_filter]

/-- mean of `o` inside the bin of `i` -/
noncomputable def binMean (bin : Fin n → Fin K) (o : Fin n → ℝ) (k : Fin K) : ℝ :=
  (∑ i ∈ univ.filter (fun i => bin i = k), o i) / ((univ.filter (fun i => bin i = k)).card : ℝ)

/-- key cancellation: a bin-wise constant weight times (bin mean − o) sums to zero -/
theorem cross_zero (bin : Fin n → Fin K) (o : Fin n → ℝ) (h : Fin K → ℝ) :
    ∑ i, h (bin i) * (binMean bin o (bin i) - o i) = 0 := by
  rw [← Finset.sum_fiberwise (s := univ) (g := bin)]
  apply Finset.sum_eq_zero
  intro k _
  have hk : ∀ i ∈ univ.filter (fun i => bin i = k), h (bin i) * (binMean bin o (bin i) - o i)
      = h k * (binMean bin o k - o i) := by
    intro i hi
    have : bin i = k := (Finset.mem_filter.mp hi).2
    rw [this]
  rw [Finset.sum_congr rfl hk, ← Finset.mul_sum, Finset.sum_sub_distrib, Finset.sum_const, nsmul_eq_mul]
  by_cases hc : ((univ.filter (fun i => bin i = k)).card : ℝ) = 0
  · have : (univ.filter (fun i => bin i = k)) = ∅ := by
      have : (univ.filter (fun i => bin i = k)).card = 0 := by exact_mod_cast hc
      exact Finset.card_eq_zero.mp this
    simp [this]
  · unfold binMean
    field_simp
    ring

/-- R9: Brier decomposition BS = REL − RES + UNC (all multiplied by N), forecast constant on bins -/
theorem R9 (bin : Fin n → Fin K) (o p : Fin n → ℝ) (c : Fin K → ℝ)
    (hp : ∀ i, p i = c (bin i)) (obar : ℝ) :
    ∑ i, (p i - o i) ^ 2 =
      ∑ i, (p i - binMean bin o (bin i)) ^ 2 - ∑ i, (binMean bin o (bin i) - obar) ^ 2
        + ∑ i, (obar - o i) ^ 2 := by
  have h1 := cross_zero bin o (fun k => c k - binMean bin o k)
  have h2 := cross_zero bin o (fun k => obar - binMean bin o k)
  have e1 : ∑ i, (p i - o i) ^ 2 = ∑ i, (p i - binMean bin o (bin i)) ^ 2
      + 2 * ∑ i, (c (bin i) - binMean bin o (bin i)) * (binMean bin o (bin i) - o i)
      + ∑ i, (binMean bin o (bin i) - o i) ^ 2 := by
    rw [Finset.mul_sum, ← Finset.sum_add_distrib, ← Finset.sum_add_distrib]
    apply Finset.sum_congr rfl; intro i _; rw [hp i]; ring
  have e2 : ∑ i, (obar - o i) ^ 2 = ∑ i, (binMean bin o (bin i) - obar) ^ 2
      + 2 * ∑ i, (obar - binMean bin o (bin i)) * (binMean bin o (bin i) - o i)
      + ∑ i, (binMean bin o (bin i) - o i) ^ 2 := by
    rw [Finset.mul_sum, ← Finset.sum_add_distrib, ← Finset.sum_add_distrib]
    apply Finset.sum_congr rfl; intro i _; ring
  rw [e1, e2, h1, h2]; ring

/-- R8: Cauchy–Schwarz in the form the correlation bound needs -/
theorem R8 (a b : Fin n → ℝ) : (∑ i, a i * b i) ^ 2 ≤ (∑ i, a i ^ 2) * (∑ i, b i ^ 2) :=
  Finset.sum_mul_sq_le_sq_mul_sq univ a b

/-- R6: partition of a sum by a total key function -/
theorem R6 (key : Fin n → Fin K) (f : Fin n → ℝ) :
    ∑ k, ∑ i ∈ univ.filter (fun i => key i = k), f i = ∑ i, f i :=
  Finset.sum_fiberwise univ key f

/-- R7: pooled sum = Σ_k count_k * mean_k (count-weighted mean of slice means, times N) -/
theorem R7 (key : Fin n → Fin K) (f : Fin n → ℝ) :
    ∑ k, ((univ.filter (fun i => key i = k)).card : ℝ) *
        ((∑ i ∈ univ.filter (fun i => key i = k), f i) / ((univ.filter (fun i => key i = k)).card : ℝ))
      = ∑ i, f i := by
  rw [← R6 key f]
  apply Finset.sum_congr rfl
  intro k _
  by_cases hc : ((univ.filter (fun i => key i = k)).card : ℝ) = 0
  · have h0 : (univ.filter (fun i => key i = k)).card = 0 := by exact_mod_cast hc
    have : (univ.filter (fun i => key i = k)) = ∅ := Finset.card_eq_zero.mp h0
    simp [this]
  · field_simp

/-- R10: a reduction over all indices is invariant under a permutation of the indices (np.sort) -/
theorem R10 (σ : Equiv.Perm (Fin n)) (f : Fin n → ℝ) : ∑ i, f (σ i) = ∑ i, f i :=
  Equiv.sum_comp σ f


/-- R11: two ascending arrangements of the same values are equal; in particular np.sort of an ascending array returns it
(pyvc/setarr.py: `sort` of a set-like array) -/
theorem R11 (l₁ l₂ : List ℝ) (h₁ : l₁.SortedLE) (h₂ : l₂.SortedLE) (hp : l₁.Perm l₂) : l₁ = l₂ :=
  List.Perm.eq_of_sortedLE h₁ h₂ hp

/-- R12: when the elements satisfying p come first (NumPy sorts NaN last), keeping the elements that satisfy p keeps a prefix
(pyvc/setarr.py: `drop_nan`) -/
theorem R12 {α : Type} (p : α → Bool) (l : List α)
    (h : l.Pairwise (fun a b => p b = true → p a = true)) : l.filter p = l.takeWhile p := by
  induction l with
  | nil => rfl
  | cons a t ih =>
    rw [List.pairwise_cons] at h
    by_cases ha : p a = true
    · simp [ha, ih h.2]
    · have hall : ∀ b ∈ t, p b = false := by
        intro b hb
        by_contra hb'
        exact ha (h.1 b hb (by simpa using hb'))
      have hnil : t.filter p = [] := List.filter_eq_nil_iff.mpr (by intro b hb; simp [hall b hb])
      simp [ha, hnil]

#print axioms R1
#print axioms R3_term
#print axioms R4
#print axioms R5
#print axioms R6
#print axioms R7
#print axioms R8
#print axioms R9
#print axioms R10
#print axioms R11
#print axioms R12
