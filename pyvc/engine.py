"""pyvc.engine -- path exploration by re-execution, entailment, proof goals, module patching."""
import contextlib
import sys
import time
import traceback

import z3

from . import sym
from .sym import CTX, Unsupported, Abort, SBool, SNum, SArr, bz


class Outcome(object):
    """result of one feasible path through the code under verification"""
    def __init__(self, kind, value=None, exc=None, tb=None):
        self.kind = kind      # 'return' | 'abort' | 'raise' | 'unsupported'
        self.value = value
        self.exc = exc
        self.tb = tb

    def __repr__(self):
        return "Outcome(%s, %r)" % (self.kind, self.value if self.kind == "return" else self.exc)


class Budget(Exception):
    pass


ABS_ONLY = -1      # entails(..., timeout_ms=ABS_ONLY): consult only the linear abstraction


def kw_abs_only(timeout_ms):
    return timeout_ms == ABS_ONLY


class Engine(object):
    def __init__(self, timeout_ms=20000, max_paths=4096, max_decisions=400):
        self.timeout_ms = timeout_ms
        self.max_paths = max_paths
        self.max_decisions = max_decisions
        self.solver_calls = 0
        self.solver_time = 0.0
        self.stats = {"paths": 0, "decisions": 0}

    # ---------------------------------------------------------------- solver plumbing
    def _new_solver(self):
        s = z3.Solver()
        s.set("timeout", self.timeout_ms)
        self._solver = s
        self._nfacts = 0
        self._npc = 0
        # second solver over the LINEAR ABSTRACTION of the same facts: every nonlinear product / quotient is
        # replaced by a fresh constant (same subterm, same constant).  Unsat there implies unsat of the real
        # query (a real model induces an abstract one), and it answers in milliseconds; used first everywhere.
        a = z3.Solver()
        a.set("timeout", 5000)
        self._abs_solver = a
        self._abs_nfacts = 0
        self._abs_npc = 0
        self._abs_cache = {}
        self._abs_memo = {}
        self._abs_keep = []      # keeps abstracted terms alive so that ids are not reused

    def abstract(self, term):
        cache = self._abs_cache
        term = z3.simplify(term)

        def nonlinear(t):
            if not z3.is_app(t):
                return False
            k = t.decl().kind()
            if k == z3.Z3_OP_MUL:
                return sum(1 for c in t.children() if not (z3.is_rational_value(c) or z3.is_int_value(c))) >= 2
            if k in (z3.Z3_OP_DIV, z3.Z3_OP_IDIV, z3.Z3_OP_MOD, z3.Z3_OP_REM):
                c = t.children()[1]
                return not (z3.is_rational_value(c) or z3.is_int_value(c))
            if k == z3.Z3_OP_POWER:
                return True
            return False
        memo = self._abs_memo
        R = z3.RealSort()
        I = z3.IntSort()
        ufs = self._abs_cache

        def uf(name, sort, arity):
            key = (name, sort.name(), arity)
            if key not in ufs:
                ufs[key] = z3.Function("nl_%s_%s%d" % (name, sort.name(), arity), *([sort] * arity + [sort]))
            return ufs[key]

        def go(t):
            i = t.get_id()
            if i in memo:
                return memo[i]
            if z3.is_quantifier(t) or not z3.is_app(t):
                memo[i] = t
                return t
            ch = t.children()
            if not ch:
                memo[i] = t
                return t
            new = [go(c) for c in ch]
            if nonlinear(t):
                # uninterpreted product / quotient of the abstracted arguments: congruence is kept
                k = t.decl().kind()
                srt = t.sort()
                if k == z3.Z3_OP_MUL:
                    nums = [c for c in new if z3.is_rational_value(c) or z3.is_int_value(c)]
                    rest = sorted([c for c in new if not (z3.is_rational_value(c) or z3.is_int_value(c))], key=lambda c: c.get_id())
                    acc = rest[0]
                    for c in rest[1:]:
                        acc = uf("mul", srt, 2)(acc, c)
                    for c in nums:
                        acc = c * acc
                    r = acc
                else:
                    name = {z3.Z3_OP_DIV: "div", z3.Z3_OP_IDIV: "idiv", z3.Z3_OP_MOD: "mod", z3.Z3_OP_REM: "rem", z3.Z3_OP_POWER: "pow"}[k]
                    r = uf(name, srt, 2)(new[0], new[1])
                memo[i] = r
                return r
            if all(a.get_id() == b.get_id() for a, b in zip(new, ch)):
                memo[i] = t
                return t
            r = t.decl()(*new)
            memo[i] = r
            return r
        self._abs_keep.append(term)
        return go(term)

    def _abs_sync(self):
        a = self._abs_solver
        while self._abs_nfacts < len(CTX.facts):
            a.add(self.abstract(CTX.facts[self._abs_nfacts]))
            self._abs_nfacts += 1
        while self._abs_npc < len(CTX.pc):
            a.add(self.abstract(CTX.pc[self._abs_npc]))
            self._abs_npc += 1

    def abs_unsat(self, *extra, **kw):
        """True if facts & pc & extra is unsatisfiable already in the linear abstraction"""
        self._abs_sync()
        a = self._abs_solver
        tmo = kw.get("timeout_ms")
        if tmo:
            a.set("timeout", tmo)
        a.push()
        for e in extra:
            a.add(self.abstract(e))
        t0 = time.time()
        try:
            r = a.check()
        except z3.Z3Exception:
            r = z3.unknown
        self.solver_calls += 1
        self.solver_time += time.time() - t0
        a.pop()
        if tmo:
            a.set("timeout", 5000)
        return r == z3.unsat

    def _sync(self):
        s = self._solver
        while self._nfacts < len(CTX.facts):
            s.add(CTX.facts[self._nfacts])
            self._nfacts += 1
        while self._npc < len(CTX.pc):
            s.add(CTX.pc[self._npc])
            self._npc += 1

    def check(self, *extra, **kw):
        """satisfiability of facts & pc & extra -> 'sat' | 'unsat' | 'unknown'"""
        # facts may be appended while the goal term was being built: sync right before the check
        self._sync()
        s = self._solver
        tmo = kw.get("timeout_ms")
        if tmo:
            s.set("timeout", tmo)
        s.push()
        for e in extra:
            s.add(e)
        t0 = time.time()
        r = s.check()
        self.solver_calls += 1
        self.solver_time += time.time() - t0
        model = None
        if r == z3.sat:
            model = s.model()
        s.pop()
        if tmo:
            s.set("timeout", self.timeout_ms)
        self.last_model = model
        return str(r)

    def entails(self, z, timeout_ms=None):
        """facts & pc |= z ?  (unknown counts as 'not entailed'; callers only lose precision by that)"""
        z = bz(z) if isinstance(z, bool) else z
        z = z3.simplify(z)
        if z3.is_true(z):
            return True
        if z3.is_false(z):
            return self.check(timeout_ms=timeout_ms) == "unsat"
        if self.abs_unsat(z3.Not(z)):
            return True
        if kw_abs_only(timeout_ms):
            return False
        return self.check(z3.Not(z), timeout_ms=timeout_ms) == "unsat"

    # ---------------------------------------------------------------- forking
    def decide(self, z):
        z = z3.simplify(z)
        if z3.is_true(z):
            return True
        if z3.is_false(z):
            return False
        if self._pos < len(self._prefix):
            d = self._prefix[self._pos]
            self._pos += 1
            CTX.pc.append(z if d else z3.Not(z))
            return d
        if len(self._prefix) >= self.max_decisions:
            raise Budget("more than %d decisions on one path" % self.max_decisions)
        self.stats["decisions"] += 1
        r_true = self.check(z)       # can z be true?
        r_false = self.check(z3.Not(z))
        if r_true == "unsat" and r_false == "unsat":
            raise sym.PathInfeasible()
        if r_true == "unsat":
            d = False
        elif r_false == "unsat":
            d = True
        else:
            d = True
            self._work.append(self._prefix[:self._pos] + [False])
        self._prefix.append(d)
        self._pos += 1
        CTX.pc.append(z if d else z3.Not(z))
        return d

    # ---------------------------------------------------------------- path enumeration
    def paths(self, thunk):
        """Run thunk() once per feasible path.  thunk builds its symbolic inputs itself (deterministically)
        and returns (inputs, callable) or directly runs the code; here: thunk() -> value.
        Yields (Outcome, ctx-snapshot) while the context of that path is still live."""
        # an obligation may be split by a forced prefix of decisions (its siblings cover the other prefixes)
        self._work = [list(getattr(self, "initial_prefix", []))]
        n = 0
        while self._work:
            prefix = self._work.pop()
            n += 1
            if n > self.max_paths:
                raise Budget("more than %d paths" % self.max_paths)
            CTX.reset_run()
            CTX.engine = self
            self._new_solver()
            self._prefix = list(prefix)
            self._pos = 0
            self.stats["paths"] += 1
            try:
                v = thunk()
                out = Outcome("return", v)
            except sym.PathInfeasible:
                continue
            except Abort as e:
                out = Outcome("abort", exc=e)
            except Unsupported as e:
                out = Outcome("unsupported", exc=e, tb=traceback.format_exc())
            except Budget:
                raise
            except SystemExit as e:
                out = Outcome("abort", exc=Abort("SystemExit(%r)" % (e.code,)))
            except RecursionError as e:
                out = Outcome("unsupported", exc=e, tb=traceback.format_exc())
            except Exception as e:
                # an exception escaping the real code on a feasible path
                tb = traceback.format_exc()
                if _raised_in_shim(sys.exc_info()[2]):
                    out = Outcome("unsupported", exc=e, tb=tb)
                else:
                    out = Outcome("raise", exc=e, tb=tb)
            if self.check() == "unsat":
                continue
            yield out

    # ---------------------------------------------------------------- proof goals
    def prove(self, goal, idx_tuples=()):
        """validity of goal under facts & pc -> (verdict, model, seconds); verdict in unsat/sat/unknown"""
        goal = bz(goal) if isinstance(goal, bool) else goal
        if isinstance(goal, SBool):
            goal = goal.z
        for f in sym.instantiate_atoms(idx_tuples):
            CTX.facts.append(f)
        t0 = time.time()
        if self.abs_unsat(z3.Not(goal)):
            self.last_model = None
            return "unsat", None, time.time() - t0
        # not immediate: bring the atoms up to date with the facts collected since they were created
        nf = (len(CTX.facts), len(CTX.pc), len(CTX.atoms))
        if getattr(self, "_refreshed", None) != nf:
            sym.refresh_atoms(self)
            self._refreshed = (len(CTX.facts), len(CTX.pc), len(CTX.atoms))
        if self.abs_unsat(z3.Not(goal)):
            self.last_model = None
            return "unsat", None, time.time() - t0
        r = self.check(z3.Not(goal))
        dt = time.time() - t0
        verdict = {"unsat": "unsat", "sat": "sat"}.get(r, "unknown")
        return verdict, self.last_model, dt

    def smt2(self, goal):
        """SMT-LIB2 text of the current query (for the second solver)"""
        self._sync()
        s = z3.Solver()
        for a in self._solver.assertions():
            s.add(a)
        s.add(z3.Not(goal))
        return s.to_smt2()


def _raised_in_shim(tb):
    """True if the innermost frame that raised belongs to pyvc (not to the repository code)"""
    last = None
    while tb is not None:
        last = tb
        tb = tb.tb_next
    if last is None:
        return False
    fn = last.tb_frame.f_code.co_filename
    return "/pyvc/" in fn or "/contracts/" in fn or "z3" in fn


# --------------------------------------------------------------------------------------------
# module patching: rebind module globals for the duration of a run
# --------------------------------------------------------------------------------------------
@contextlib.contextmanager
def patched(module, **names):
    """temporarily set module-level globals (np shim, builtin shadows, stubs)"""
    missing = object()
    old = {}
    for k, v in names.items():
        old[k] = module.__dict__.get(k, missing)
        module.__dict__[k] = v
    try:
        yield
    finally:
        for k, v in old.items():
            if v is missing:
                module.__dict__.pop(k, None)
            else:
                module.__dict__[k] = v


@contextlib.contextmanager
def patched_attr(obj, name, value):
    missing = object()
    old = obj.__dict__.get(name, missing) if hasattr(obj, "__dict__") else getattr(obj, name, missing)
    setattr(obj, name, value)
    try:
        yield
    finally:
        if old is missing:
            try:
                delattr(obj, name)
            except AttributeError:
                pass
        else:
            setattr(obj, name, old)
