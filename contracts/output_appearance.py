"""C17: the appearance attributes of an Output object take effect, independently of each other.

Output._adjust_axis / _adjust_axes / _save_plot / _legend / _get_plot_options are executed for real against a small
STATEFUL stand-in for the matplotlib Axes / pyplot objects (abstract state: labels, title, font sizes, per-tick-label
rotation and size, ticks, limits (widened by set_ticks as matplotlib does), scales, grid arguments, figure size, margins,
savefig arguments).  The
postconditions read that state, not call names, so an equivalent idiom passes.  Assumed (not decided): matplotlib
renders what its setters were given.  Bounded: every single option and every pair of options, one sample value each."""
import contextlib
import itertools

import verif.output
import verif.axis
import verif.util

from pyvc import engine
from .axis import _enumerated


class FakeLabel(object):
    def __init__(self, text, rotation=0):
        # the plot may have drawn its tick labels with a rotation of its own (the -x no bar chart uses 90)
        self.text, self.rotation, self.fontsize = text, rotation, 10

    def set_rotation(self, r): self.rotation = r
    def set_fontsize(self, s): self.fontsize = s
    def set_size(self, s): self.fontsize = s


class FakeAxes(object):
    def __init__(self):
        self.s = {"xlabel": "auto-x", "ylabel": "auto-y", "title": "auto-title", "xlabel_fs": 10, "ylabel_fs": 10, "title_fs": 10,
                  "aspect": None, "grid": None, "xticks": None, "yticks": None, "xticklabels_text": None, "yticklabels_text": None,
                  "xlim": None, "ylim": None, "xscale": "linear", "yscale": "linear"}
        self.xl = [FakeLabel("1", 90), FakeLabel("2", 90), FakeLabel("3", 90)]
        self.yl = [FakeLabel("a", 15), FakeLabel("b", 15)]

    def _lab(self, which, text, kw):
        if text is not None:
            self.s[which] = text
        for k in ("fontsize", "size"):
            if k in kw:
                self.s[which + "_fs"] = kw[k]

    def set_xlabel(self, text=None, **kw): self._lab("xlabel", text, kw)
    def set_ylabel(self, text=None, **kw): self._lab("ylabel", text, kw)
    def set_title(self, text=None, **kw): self._lab("title", text, kw)
    def get_xlabel(self): return self.s["xlabel"]
    def get_ylabel(self): return self.s["ylabel"]
    def get_title(self): return self.s["title"]
    def set_aspect(self, a, **kw): self.s["aspect"] = a

    def grid(self, *a, **kw):
        on = True
        if a and a[0] in (False, "off"):
            on = False
        if "visible" in kw:
            on = bool(kw.pop("visible"))
        self.s["grid"] = dict(kw) if on else None

    def get_xticklabels(self): return self.xl
    def get_yticklabels(self): return self.yl

    def tick_params(self, axis="both", **kw):
        for which, labs in (("x", self.xl), ("y", self.yl)):
            if axis in (which, "both"):
                for l in labs:
                    if "labelrotation" in kw:
                        l.rotation = kw["labelrotation"]
                    if "labelsize" in kw:
                        l.fontsize = kw["labelsize"]

    def _ticks(self, which, t):
        # matplotlib: "the view limits are expanded to include all given ticks" (Axis.set_ticks); the view starts as [0, 1]
        self.s[which + "ticks"] = list(t)
        lim = self.s[which + "lim"] if self.s[which + "lim"] is not None else [0.0, 1.0]
        if len(t):
            new = [min(lim[0], min(t)), max(lim[1], max(t))]
            if new != lim or self.s[which + "lim"] is not None:
                self.s[which + "lim"] = new

    def set_xticks(self, t, **kw): self._ticks("x", t)
    def set_yticks(self, t, **kw): self._ticks("y", t)
    def set_xticklabels(self, t, **kw): self.s["xticklabels_text"] = list(t)
    def set_yticklabels(self, t, **kw): self.s["yticklabels_text"] = list(t)
    def set_xlim(self, *a, **kw): self.s["xlim"] = list(a[0]) if len(a) == 1 else list(a)
    def set_ylim(self, *a, **kw): self.s["ylim"] = list(a[0]) if len(a) == 1 else list(a)
    def set_xscale(self, v, **kw): self.s["xscale"] = v
    def set_yscale(self, v, **kw): self.s["yscale"] = v


class FakeFigure(object):
    def __init__(self, owner):
        self.o = owner
        self.canvas = type("C", (), {"manager": None})()

    def set_size_inches(self, *a, **kw):
        self.o.s["size"] = [a[0][0], a[0][1]] if len(a) == 1 else [a[0], a[1]]

    def subplots_adjust(self, **kw):
        for k, v in kw.items():
            if v is not None:
                self.o.s["margin_" + k] = v

    def set_dpi(self, d): self.o.s["dpi_fig"] = d


class FakePyplot(object):
    """what verif.output sees as `mpl`"""
    def __init__(self):
        self.ax = FakeAxes()
        self.s = {"size": None, "savefig": None, "legend": None, "shown": False}
        self.fig = FakeFigure(self)
        import matplotlib.pyplot as real
        self.cm = real.cm

    def gca(self): return self.ax
    def gcf(self): return self.fig
    def savefig(self, fname, **kw): self.s["savefig"] = dict(kw, fname=fname)
    def show(self): self.s["shown"] = True
    def legend(self, *a, **kw): self.s["legend"] = dict(kw, names=list(a[0]) if a else None)
    def subplots_adjust(self, **kw): self.fig.subplots_adjust(**kw)
    def clf(self): pass


class _Data(object):
    def get_names(self): return ["A", "B"]


# option -> (attributes to set on the Output object, check(axes state, pyplot state, axes) -> bool)
def _all_rot(labels, r): return all(l.rotation == r for l in labels)
def _all_fs(labels, s): return all(l.fontsize == s for l in labels)


OPTS = {
    "xlabel": ({"xlabel": "XL"}, lambda a, p, ax: a["xlabel"] == "XL"),
    "ylabel": ({"ylabel": "YL"}, lambda a, p, ax: a["ylabel"] == "YL"),
    "title": ({"title": "TT"}, lambda a, p, ax: a["title"] == "TT"),
    "labfs": ({"labfs": 23}, lambda a, p, ax: a["xlabel_fs"] == 23 and a["ylabel_fs"] == 23),
    "titlefs": ({"titlefs": 27}, lambda a, p, ax: a["title_fs"] == 27),
    "tickfs": ({"tick_font_size": 5}, lambda a, p, ax: _all_fs(ax.xl, 5) and _all_fs(ax.yl, 5)),
    "xrot": ({"xrot": 45.0}, lambda a, p, ax: _all_rot(ax.xl, 45.0)),
    "yrot": ({"yrot": 30.0}, lambda a, p, ax: _all_rot(ax.yl, 30.0)),
    "xrot=0": ({"xrot": 0.0}, lambda a, p, ax: _all_rot(ax.xl, 0.0)),
    "yrot=0": ({"yrot": 0.0}, lambda a, p, ax: _all_rot(ax.yl, 0.0)),
    "no-rotation-option": ({}, lambda a, p, ax: _all_rot(ax.xl, 90) and _all_rot(ax.yl, 15)),
    "aspect": ({"aspect": 2.0}, lambda a, p, ax: a["aspect"] == 2.0),
    "grid-default": ({}, lambda a, p, ax: a["grid"] is not None),
    "nogrid": ({"grid": False}, lambda a, p, ax: a["grid"] is None),
    "gs": ({"grid_style": "--"}, lambda a, p, ax: a["grid"] is not None and (a["grid"].get("linestyle") == "--" or a["grid"].get("ls") == "--")),
    "gc": ({"grid_color": "green"}, lambda a, p, ax: a["grid"] is not None and (a["grid"].get("color") == "green" or a["grid"].get("c") == "green")),
    "gw": ({"grid_lw": "2"}, lambda a, p, ax: a["grid"] is not None and (a["grid"].get("lw") == "2" or a["grid"].get("linewidth") == "2")),
    # (one tick of each sample lies outside the sample limits: explicit limits must still win)
    "xticks": ({"xticks": [1.0, 12.0]}, lambda a, p, ax: a["xticks"] == [1.0, 12.0]),
    "yticks": ({"yticks": [-3.0, 0.5]}, lambda a, p, ax: a["yticks"] == [-3.0, 0.5]),
    "xticklabels": ({"xticklabels": ["p", "q"]}, lambda a, p, ax: a["xticklabels_text"] == ["p", "q"]),
    "yticklabels": ({"yticklabels": ["r", "s"]}, lambda a, p, ax: a["yticklabels_text"] == ["r", "s"]),
    "xlim": ({"xlim": [0.0, 9.0]}, lambda a, p, ax: a["xlim"] == [0.0, 9.0]),
    "ylim": ({"ylim": [-1.0, 1.0]}, lambda a, p, ax: a["ylim"] == [-1.0, 1.0]),
    "xlog": ({"xlog": True}, lambda a, p, ax: a["xscale"] == "log"),
    "ylog": ({"ylog": True}, lambda a, p, ax: a["yscale"] == "log"),
    "fs": ({"figsize": ["10", "4"]}, lambda a, p, ax: p["size"] == [10, 4]),
    "dpi": ({"dpi": 200}, lambda a, p, ax: p["savefig"] is not None and p["savefig"].get("dpi") == 200),
    "f": ({}, lambda a, p, ax: p["savefig"] is not None and p["savefig"]["fname"] == "out.png" and not p["shown"]),
    "left": ({"left": 0.2}, lambda a, p, ax: p.get("margin_left") == 0.2 and p["savefig"].get("bbox_inches") != "tight"),
    "right": ({"right": 0.8}, lambda a, p, ax: p.get("margin_right") == 0.8 and p["savefig"].get("bbox_inches") != "tight"),
    "top": ({"top": 0.9}, lambda a, p, ax: p.get("margin_top") == 0.9 and p["savefig"].get("bbox_inches") != "tight"),
    "bottom": ({"bottom": 0.1}, lambda a, p, ax: p.get("margin_bottom") == 0.1 and p["savefig"].get("bbox_inches") != "tight"),
    "left=0": ({"left": 0.0}, lambda a, p, ax: p.get("margin_left") == 0.0 and p["savefig"].get("bbox_inches") != "tight"),
    "bottom=0": ({"bottom": 0.0}, lambda a, p, ax: p.get("margin_bottom") == 0.0 and p["savefig"].get("bbox_inches") != "tight"),
    "nomargin": ({"show_margin": False}, lambda a, p, ax: p.get("margin_left") == 0 and p.get("margin_right") == 1 and p.get("margin_bottom") == 0 and p.get("margin_top") == 1),
    "legfs": ({"legfs": 7}, lambda a, p, ax: p["legend"] is not None and p["legend"].get("prop", {}).get("size") == 7),
    "legfs=0": ({"legfs": 0}, lambda a, p, ax: p["legend"] is None),
    "legloc": ({"leg_loc": "upper left"}, lambda a, p, ax: p["legend"] is not None and p["legend"].get("loc") == "upper left"),
}
CONFLICT = [{"xrot", "xrot=0"}, {"yrot", "yrot=0"}, {"no-rotation-option", "xrot"}, {"no-rotation-option", "yrot"},
            {"no-rotation-option", "xrot=0"}, {"no-rotation-option", "yrot=0"}, {"grid-default", "nogrid"}, {"nogrid", "gs"}, {"nogrid", "gc"}, {"nogrid", "gw"}, {"legfs", "legfs=0"}, {"legfs=0", "legloc"},
            {"left", "left=0"}, {"bottom", "bottom=0"}, {"nomargin", "left"}, {"nomargin", "right"}, {"nomargin", "top"}, {"nomargin", "bottom"},
            {"nomargin", "left=0"}, {"nomargin", "bottom=0"}]


def _run(names):
    pl = verif.output.Output()
    pl.filename = "out.png"
    for n in names:
        for k, v in OPTS[n][0].items():
            setattr(pl, k, v)
    fake = FakePyplot()
    with engine.patched(verif.output, mpl=fake), engine.patched(verif.util, mpl=fake):
        pl._adjust_axes(_Data())
        pl._legend(_Data())
        pl._save_plot(_Data())
    a = dict(fake.ax.s)
    p = dict(fake.s)
    return a, p, fake.ax


def _single_and_pairs():
    def body():
        cases = 0
        names = list(OPTS)
        for n in names:
            a, p, ax = _run([n])
            cases += 1
            if not OPTS[n][1](a, p, ax):
                return cases, {"options": [n], "attributes": OPTS[n][0], "axes-state": {k: str(v) for k, v in a.items()}, "figure-state": {k: str(v) for k, v in p.items()},
                               "xtick-rotations": [l.rotation for l in ax.xl], "ytick-rotations": [l.rotation for l in ax.yl]}
        for n1, n2 in itertools.combinations(names, 2):
            if any(n1 in c and n2 in c for c in CONFLICT):
                continue
            a, p, ax = _run([n1, n2])
            cases += 1
            for n in (n1, n2):
                if not OPTS[n][1](a, p, ax):
                    return cases, {"options": [n1, n2], "not-honoured": n, "axes-state": {k: str(v) for k, v in a.items()},
                                   "figure-state": {k: str(v) for k, v in p.items()}}
        return cases, None
    return body


_enumerated("verif.output.Output._adjust_axes+_legend+_save_plot#BOUNDED:every-option-and-every-pair-takes-effect", ("C17",),
            "every single appearance attribute and every pair of them (one sample value each, incl. margins equal to 0) against a stateful Axes/pyplot stand-in",
            _single_and_pairs(), ["verif.output.Output._adjust_axis", "verif.output.Output._adjust_axes", "verif.output.Output._legend",
                                  "verif.output.Output._save_plot"])


def _plot_options():
    def body():
        cases = 0
        pl = verif.output.Output()
        pl.lw, pl.ms = [1, 3], [4, 6, 8]
        pl.line_colors, pl.line_styles, pl.markers = ["red", "blue"], ["-", "--", ":"], ["o", "x"]
        for i in range(0, 13):
            o = pl._get_plot_options(i)
            cases += 1
            want = {"lw": pl.lw[i % 2], "ms": pl.ms[i % 3], "color": pl.line_colors[i % 2], "ls": pl.line_styles[i % 3], "marker": pl.markers[i % 2]}
            if o != want:
                return cases, {"line": i, "got": o, "want": want}
            o2 = pl._get_plot_options(i, include_line=False, include_marker=False)
            if o2["ls"] != "" or o2["marker"] != "" or o2["color"] != want["color"]:
                return cases, {"line": i, "got": o2}
        return cases, None
    return body


_enumerated("verif.output.Output._get_plot_options#BOUNDED:line-styles-cycle-through-the-given-lists", ("C17",),
            "lines 0..12 with -lw/-ms/-lc/-ls/-ma lists of lengths 2 and 3", _plot_options(), ["verif.output.Output._get_plot_options"])


# ------------------------------------------------------------------ map output: -clim / -cmap / -clabel reach the scatter plot and its colour bar
class _RecMap(object):
    def __init__(self):
        self.scatters = []

    def scatter(self, x, y, **kw):
        self.scatters.append(kw)
        return ("collection", len(self.scatters))

    def plot(self, *a, **kw):
        pass


class _RecBar(object):
    def __init__(self, owner):
        self.owner = owner

    def set_label(self, text, **kw):
        self.owner.s["colorbar_label"] = text


def _map_options():
    import numpy as np
    import verif.location
    import verif.metric

    class _MapData(object):
        num_inputs = 1
        locations = [verif.location.Location(i, 60.0 + i, 10.0 + i, 100.0 * i) for i in range(4)]
        import verif.variable
        variable = verif.variable.Variable("T", "K")

        def get_legend(self): return ["a"]
        get_names = get_legend

    def body():
        cases = 0
        y = np.array([[1.0], [2.0], [4.0], [5.0]])
        for clim in (None, [0.0, 5.0], [-2.0, 0.0], [1.5, 3.0], [0.0, 0.0]):
            for cmap in (None, "RdBu"):
                for clabel in (None, "my label"):
                    pl = verif.output.Standard(verif.metric.Mae())
                    pl.clim, pl.cmap, pl.clabel = clim, cmap, clabel
                    rec = _RecMap()
                    fake = FakePyplot()
                    fake.fig.colorbar = lambda cs, **kw: _RecBar(fake)
                    pl._get_x_y = lambda data, axis: (list(range(4)), y, "Location", ["a"], None)
                    pl._setup_map = lambda data, N, Y: (rec, np.arange(4.0), np.arange(4.0))
                    pl._add_annotation = lambda *a, **kw: None
                    pl._get_transform_args = lambda *a, **kw: {}
                    cases += 1
                    with engine.patched(verif.output, mpl=fake), engine.patched(verif.util, mpl=fake):
                        pl._map_core(_MapData())
                    sc = [k for k in rec.scatters if "vmin" in k or "vmax" in k]
                    want = clim if clim is not None else [verif.util.nanpercentile(y.flatten(), pl._mapLowerPerc), verif.util.nanpercentile(y.flatten(), pl._mapUpperPerc)]
                    ok = (len(sc) == 1 and sc[0].get("vmin") == want[0] and sc[0].get("vmax") == want[1] and sc[0].get("cmap") == cmap
                          and fake.s.get("colorbar_label") == (clabel if clabel is not None else pl._metric.label(_MapData.variable)))
                    if not ok:
                        return cases, {"clim": clim, "cmap": cmap, "clabel": clabel, "scatter-arguments": {k: str(v) for k, v in (sc[0] if sc else {}).items() if k in ("vmin", "vmax", "cmap")},
                                       "colorbar-label": fake.s.get("colorbar_label"), "want-limits": [float(w) for w in want]}
        return cases, None
    return body


_enumerated("verif.output.Standard._map_core#BOUNDED:-clim,-cmap,-clabel-reach-the-map-and-its-colour-bar", ("C17",),
            "5 colour limits (none, and bounds equal to 0) x 2 colour maps x 2 colour-bar labels on a four-station map; the map object and the colour bar are recording stand-ins",
            _map_options(), ["verif.output.Standard._map_core"])
