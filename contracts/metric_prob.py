"""Contracts for the probabilistic metrics of verif/metric.py (C08)."""
import numpy as _np

import verif.metric
import verif.field
import verif.axis
import verif.interval

from pyvc import sym
from pyvc.framework import Obligation, register, Bag, FIN, NAN, PINF, NINF, ALL_KINDS
from .common import member, NOT_NAN

MOD = [verif.metric, verif.interval, verif.aggregator, verif.util]


class ProbData(object):
    """contract stub of Data.get_scores for probabilistic requests: Threshold/Quantile fields are told apart by the
    identity of the level they were built from (the interval end points); every request is recorded"""
    def __init__(self, obs=None, levels=None, other=None):
        self.obs = obs
        self.levels = levels or []        # list of (level object, array)
        self.other = other or {}          # field class -> array
        self.requests = []

    def get_scores(self, fields, input_index, axis=None, axis_index=None):
        single = not isinstance(fields, list)
        fl = [fields] if single else list(fields)
        self.requests.append(([self._describe(f) for f in fl], input_index, axis, axis_index))
        out = []
        for f in fl:
            if isinstance(f, verif.field.Obs):
                out.append(self.obs)
            elif isinstance(f, (verif.field.Threshold, verif.field.Quantile)):
                lvl = f.threshold if isinstance(f, verif.field.Threshold) else f.quantile
                hit = [a for (l, a) in self.levels if l is lvl]
                if not hit:
                    raise AssertionError("unexpected level requested")
                out.append(hit[0])
            else:
                out.append(self.other[type(f)])
        return out[0] if single else out

    def _describe(self, f):
        if isinstance(f, verif.field.Threshold):
            return ("Threshold", id(f.threshold))
        if isinstance(f, verif.field.Quantile):
            return ("Quantile", id(f.quantile))
        return (type(f).__name__, None)


# ------------------------------------------------------------------ get_p
def _get_p(lower_kind, upper_kind):
    def setup(G):
        return Bag(obs=G.array("obs", ("n",), kinds=(FIN, NAN)), p0=G.array("p0", ("n",), kinds=(FIN, NAN)),
                   p1=G.array("p1", ("n",), kinds=(FIN, NAN)),
                   lower=G.num("lower", kinds=(lower_kind,)), upper=G.num("upper", kinds=(upper_kind,)),
                   lower_eq=G.boolean("lower_eq"), upper_eq=G.boolean("upper_eq"), rec={})

    def call(inp):
        iv = verif.interval.Interval(inp.lower, inp.upper, inp.lower_eq, inp.upper_eq)
        data = ProbData(obs=inp.obs, levels=[(iv.lower, inp.p0), (iv.upper, inp.p1)])
        inp.rec["data"], inp.rec["iv"] = data, iv
        return verif.metric.get_p(data, 1, verif.axis.Leadtime(), 4, iv)

    def post(S, inp, out):
        obsP, p = out
        iv = inp.rec["iv"]
        req = inp.rec["data"].requests
        want_req = [("Obs", None)]
        if lower_kind == FIN:
            want_req.append(("Threshold", id(iv.lower)))
        if upper_kind == FIN:
            want_req.append(("Threshold", id(iv.upper)))
        goals = [("requests-observations-and-the-cdf-at-exactly-the-finite-ends,same-slice",
                  len(req) == 1 and req[0][0] == want_req and req[0][1:] == (1, verif.axis.Leadtime(), 4))]

        def body(i):
            o = S.at(inp.obs, i)
            lo = S.at(inp.p0, i) if lower_kind == FIN else 0
            hi = S.at(inp.p1, i) if upper_kind == FIN else 1
            ev = member(S, o, inp.lower, inp.upper, bool(inp.lower_eq), bool(inp.upper_eq))
            return S.and_(S.same(S.at(p, i), hi - lo),
                          S.ite(S.isnan(o), S.isnan(S.at(obsP, i)), S.same(S.at(obsP, i), S.ite(ev, 1.0, 0.0))))
        goals.append(("p=P(X<=upper)-P(X<=lower)-with-1-and-0-at-infinite-ends;obsP=event-indicator,missing-where-obs-missing", S.forall(inp.obs, body)))
        return goals
    return setup, call, post


for _lk, _uk, _tag in ((FIN, FIN, "two-sided"), (FIN, PINF, "above"), (NINF, FIN, "below")):
    s, c, p = _get_p(_lk, _uk)
    register(Obligation("verif.metric.get_p#POST:%s" % _tag, ("C08", "C07"), s, c, p, modules=MOD, functions=["verif.metric.get_p"]))


# ------------------------------------------------------------------ Brier family
def _bs_inputs(G, constant_obs=False):
    # PRE (from get_p + get_scores): aligned, no missing values, at least one pair, probabilities within [0, 1]
    obs = G.array("obs", ("n",), kinds=(FIN,), min_size=1, between=(0.0, 1.0), grid=[0.0, 1.0])
    p = G.array("p", ("n",), kinds=(FIN,), min_size=1, between=(0.0, 1.0), grid=[0.0, 1.0, 0.05, 0.1, 0.5, 0.95, 0.3])
    return Bag(obs=obs, p=p)


def _bins(S, p, edges):
    return [(p >= float(edges[k])) & (p < float(edges[k + 1])) for k in range(len(edges) - 1)]


def _edges(num_edges):
    e = _np.linspace(0, 1, num_edges)
    e[-1] = 1.001            # top edge inclusive: p = 1 belongs to the last bin
    return e


def B_bs(S, o, p, edges): return S.mean((p - o) ** 2)
def B_unc(S, o, p, edges): return S.mean((S.mean(o) - o) ** 2)
def B_bss(S, o, p, edges):
    unc = B_unc(S, o, p, edges)
    return S.ite(S.same(unc, 0), S.nan, (unc - B_bs(S, o, p, edges)) / unc)


def _binned(S, o, p, edges, term):
    """(1/n) * sum over cases of term(p_i, mean of obs in the bin of i, mean of obs)"""
    obar = S.mean(o)
    conds = _bins(S, p, edges)
    means = []
    for cnd in conds:
        means.append((S.count_true(cnd), S.mean(S.filtered(o, cnd))))

    def per_case(i):
        tot = 0.0
        for cnd, (cnt, m) in zip(conds, means):
            tot = tot + S.ite(S.at(cnd, i), term(S.at(p, i), m, obar), 0.0)
        return tot
    return S.sum_where(p, per_case) / S.to_num(S.count(p))


def B_rel(S, o, p, edges): return _binned(S, o, p, edges, lambda pi, m, ob: (pi - m) ** 2)
def B_res(S, o, p, edges): return _binned(S, o, p, edges, lambda pi, m, ob: (m - ob) ** 2)
def B_bssrel(S, o, p, edges):
    unc = B_unc(S, o, p, edges)
    return S.ite(S.same(unc, 0), S.nan, B_rel(S, o, p, edges) / unc)
def B_bssres(S, o, p, edges):
    unc = B_unc(S, o, p, edges)
    return S.ite(S.same(unc, 0), S.nan, B_res(S, o, p, edges) / unc)


BRIER = {"Bs": (B_bs, False), "BsUnc": (B_unc, False), "Bss": (B_bss, False),
         "BsRel": (B_rel, True), "BsRes": (B_res, True), "BssRel": (B_bssrel, True), "BssRes": (B_bssres, True)}


def _brier(cls_name, num_edges=None):
    D, binned = BRIER[cls_name]
    cls = getattr(verif.metric, cls_name)

    def setup(G):
        return _bs_inputs(G)

    def call(inp):
        m = cls(num_edges) if binned else cls()
        return m.compute_from_obs_fcst(inp.obs, inp.p)

    def post(S, inp, out):
        want = D(S, inp.obs, inp.p, _edges(num_edges) if binned else None)
        return [("DEF:equals-the-definition-on-the-valid-cases", S.implies(S.isfin(want), S.same(out, want))),
                ("UNDEF:not-a-finite-number-where-undefined", S.implies(S.not_(S.isfin(want)), S.not_(S.isfin(out))))]
    return setup, call, post


for _n, (_D, _b) in sorted(BRIER.items()):
    if not _b:
        s, c, p = _brier(_n)
        register(Obligation("verif.metric.%s.compute_from_obs_fcst#POST:definition" % _n, ("C08",), s, c, p, modules=MOD))
    else:
        s, c, p = _brier(_n, 4)
        register(Obligation("verif.metric.%s.compute_from_obs_fcst#POST:definition[3-bins]" % _n, ("C08",), s, c, p, modules=MOD,
                            functions=["verif.metric.%s.compute_from_obs_fcst" % _n]))
        # the default 10 bins: 2^10 paths (one per set of non-empty bins), split over 16 forced prefixes; thorough tier
        # (the two skill-score forms differ from BsRel / BsRes only by the division that the 3-bin obligations cover)
        for _k in (range(16) if _n in ("BsRel", "BsRes") else ()):
            s, c, p = _brier(_n, 11)
            o = register(Obligation("verif.metric.%s.compute_from_obs_fcst#POST:definition[10-bins,part-%02d-of-16]" % (_n, _k), ("C08",), s, c, p,
                                    modules=MOD, functions=["verif.metric.%s.compute_from_obs_fcst" % _n]))
            o.prefix = [bool((_k >> b) & 1) for b in range(4)]
            o.thorough_only = True
            o.allow_vacuous = True


def _bs_complement():
    """the Brier score of an event equals that of its complement"""
    def setup(G):
        return _bs_inputs(G)

    def call(inp):
        m = verif.metric.Bs()
        return m.compute_from_obs_fcst(inp.obs, inp.p), m.compute_from_obs_fcst(1 - inp.obs, 1 - inp.p)

    def post(S, inp, out):
        return [("bs(event)=bs(complement)", S.same(out[0], out[1]))]
    return setup, call, post


s, c, p = _bs_complement()
register(Obligation("verif.metric.Bs.compute_from_obs_fcst#LEMMA:complement-event", ("C08",), s, c, p, modules=MOD,
                    functions=["verif.metric.Bs.compute_from_obs_fcst"]))


def _bs_perfect():
    def setup(G):
        obs = G.array("obs", ("n",), kinds=(FIN,), min_size=1, between=(0.0, 1.0), grid=[0.0, 1.0])
        return Bag(obs=obs)

    def call(inp):
        return verif.metric.Bs().compute_from_obs_fcst(inp.obs, inp.obs), verif.metric.Bss().compute_from_obs_fcst(inp.obs, inp.obs)

    def post(S, inp, out):
        return [("perfect-probabilities:bs=0", S.same(out[0], 0.0)), ("perfect-probabilities:bss=1-where-defined", S.implies(S.isfin(out[1]), S.same(out[1], 1.0)))]
    return setup, call, post


s, c, p = _bs_perfect()
register(Obligation("verif.metric.Bs.compute_from_obs_fcst#POST:perfect", ("C08",), s, c, p, modules=MOD,
                    functions=["verif.metric.Bs.compute_from_obs_fcst", "verif.metric.Bss.compute_from_obs_fcst"]))


# ------------------------------------------------------------------ quantile metrics and other scores through compute_single
def _single(name, cls_name, build, spec, props=("C08",), kinds_obs=(FIN,)):
    cls = getattr(verif.metric, cls_name)

    def setup(G):
        inp = Bag(obs=G.array("obs", ("n",), kinds=kinds_obs, min_size=1), a=G.array("a", ("n",), kinds=kinds_obs, min_size=1),
                  b=G.array("b", ("n",), kinds=kinds_obs, min_size=1), fc=G.array("fc", ("n",), kinds=kinds_obs, min_size=1), rec={})
        build(G, inp)
        # the arrays as the dataset hands them out (its cached arrays): the definition is over these, and they must not be modified
        inp.orig = {k: inp[k].copy() for k in ("obs", "a", "b", "fc")}
        return inp

    def call(inp):
        iv = verif.interval.Interval(inp.lower, inp.upper, inp.get("lower_eq", False), inp.get("upper_eq", False))
        data = ProbData(obs=inp.obs, levels=[(iv.lower, inp.a), (iv.upper, inp.b)], other={verif.field.Fcst: inp.fc, verif.field.Pit: inp.a})
        inp.rec["data"], inp.rec["iv"] = data, iv
        return cls().compute_single(data, 0, verif.axis.Leadtime(), 2, iv)

    def post(S, inp, out):
        now = {k: inp[k] for k in ("obs", "a", "b", "fc")}
        for k in now:
            inp[k] = inp.orig[k]
        try:
            goals = list(spec(S, inp, out))
        finally:
            for k in now:
                inp[k] = now[k]
        goals.append(("FRAME:the-arrays-handed-out-by-the-dataset-are-not-modified",
                      S.and_(*[S.forall(inp.orig[k], lambda i, k=k: S.same(S.at(now[k], i), S.at(inp.orig[k], i))) for k in ("obs", "a", "b", "fc")])))
        return goals
    return register(Obligation("verif.metric.%s.compute_single#POST:%s" % (cls_name, name), props, setup, call, post, modules=MOD,
                               functions=["verif.metric.%s.compute_single" % cls_name]))


def _fin_level(G, inp, which, lo=0.0, hi=1.0):
    inp[which] = G.num(which, kinds=(FIN,))
    G.assume(inp[which] >= lo)
    G.assume(inp[which] <= hi)


def _b_quantilescore(G, inp):
    _fin_level(G, inp, "lower")
    inp.upper = float("inf")


def _s_quantilescore(S, inp, out):
    # pinball loss: e * (q - [e < 0]), e = obs - forecast quantile
    def term(i):
        e = S.at(inp.obs, i) - S.at(inp.a, i)
        return e * (inp.lower - S.ite(e < 0, 1.0, 0.0))
    want = S.sum_where(inp.obs, term) / S.to_num(S.count(inp.obs))
    return [("DEF:mean-pinball-loss", S.same(out, want)), ("BOUND:non-negative", out >= 0)]


_single("pinball-loss", "QuantileScore", _b_quantilescore, _s_quantilescore)


def _b_spread(G, inp):
    _fin_level(G, inp, "lower")
    _fin_level(G, inp, "upper")


def _s_spread(S, inp, out):
    want = S.sum_where(inp.obs, lambda i: S.at(inp.b, i) - S.at(inp.a, i)) / S.to_num(S.count(inp.obs))
    return [("DEF:mean-difference-of-the-two-quantiles", S.same(out, want))]


_single("definition", "Spread", _b_spread, _s_spread)


def _coverage(lower_kind, upper_kind, tag):
    def build(G, inp):
        inp.lower = G.num("lower", kinds=(lower_kind,))
        inp.upper = G.num("upper", kinds=(upper_kind,))
        inp.lower_eq, inp.upper_eq = G.boolean("lower_eq"), G.boolean("upper_eq")

    def spec(S, inp, out):
        le, ue = bool(inp.lower_eq), bool(inp.upper_eq)

        def inside(i):
            o = S.at(inp.obs, i)
            c0 = True if lower_kind != FIN else ((S.at(inp.a, i) <= o) if le else (S.at(inp.a, i) < o))
            c1 = True if upper_kind != FIN else ((S.at(inp.b, i) >= o) if ue else (S.at(inp.b, i) > o))
            return S.and_(c0, c1)
        want = S.to_num(S.count_where(inp.obs, inside)) / S.to_num(S.count(inp.obs))
        return [("DEF:fraction-of-observations-within-the-quantile-interval(closedness-as-given)", S.same(out, want))]
    _single("definition[%s]" % tag, "QuantileCoverage", build, spec)


_coverage(FIN, FIN, "two-sided")
_coverage(NINF, FIN, "below-upper-quantile")
_coverage(FIN, PINF, "above-lower-quantile")


def _b_ign(G, inp):
    inp.lower = G.num("lower", kinds=(FIN,))
    inp.upper = float("inf")
    inp.lower_eq, inp.upper_eq = False, False


def _event_prob(S, inp, i):
    """event = obs above lower threshold; p = 1 - cdf(lower)"""
    o = S.at(inp.obs, i)
    ev = o > inp.lower
    p = 1 - S.at(inp.a, i)
    return ev, p


def _s_ign(S, inp, out):
    def term(i):
        ev, p = _event_prob(S, inp, i)
        return S.ite(ev, 0.0 - S.log2(p), 0.0 - S.log2(1 - p))
    n = S.to_num(S.count(inp.obs))
    # only where every term is finite can a finite mean be compared
    # (a universally quantified hypothesis is stated as a count, so that it can be instantiated where needed)
    nbad = S.count_where(inp.obs, lambda i: S.not_(S.isfin(term(i))))
    want = S.sum_where(inp.obs, term) / n
    return [("DEF:mean-of--log2(probability-assigned-to-what-happened)", S.implies(S.same(nbad, 0), S.same(out, want)))]


_single("definition", "Ign0", _b_ign, _s_ign)


def _s_spherical(S, inp, out):
    def term(i):
        ev, p = _event_prob(S, inp, i)
        den = S.sqrt(p ** 2 + (1 - p) ** 2)
        return S.ite(ev, p / den, (1 - p) / den)
    want = S.sum_where(inp.obs, term) / S.to_num(S.count(inp.obs))
    return [("DEF:mean-spherical-score", S.same(out, want))]


_single("definition", "Spherical", _b_ign, _s_spherical)


def _s_marginal(S, inp, out):
    n = S.to_num(S.count(inp.obs))
    pm = S.sum_where(inp.obs, lambda i: _event_prob(S, inp, i)[1]) / n
    om = S.to_num(S.count_where(inp.obs, lambda i: _event_prob(S, inp, i)[0])) / n
    return [("DEF:observed-frequency/mean-forecast-probability,nan-if-the-latter-is-0", S.ite(S.same(pm, 0), S.isnan(out), S.same(out, om / pm)))]


_single("definition", "MarginalRatio", _b_ign, _s_marginal)


def _b_two_sided(G, inp):
    inp.lower = G.num("lower", kinds=(FIN,))
    inp.upper = G.num("upper", kinds=(FIN,))
    G.assume(inp.lower < inp.upper)
    inp.lower_eq, inp.upper_eq = False, True


def _s_marginal_two(S, inp, out):
    n = S.to_num(S.count(inp.obs))
    pm = S.sum_where(inp.obs, lambda i: S.at(inp.b, i) - S.at(inp.a, i)) / n
    om = S.to_num(S.count_where(inp.obs, lambda i: S.and_(S.at(inp.obs, i) > inp.lower, S.at(inp.obs, i) <= inp.upper))) / n
    return [("DEF:observed-frequency-of-the-interval/mean(P(X<=upper)-P(X<=lower)),nan-if-the-latter-is-0", S.ite(S.same(pm, 0), S.isnan(out), S.same(out, om / pm)))]


_single("definition[two-sided]", "MarginalRatio", _b_two_sided, _s_marginal_two)


# ------------------------------------------------------------------ Pit / Quantile / Threshold means
def _pit_metric():
    from .metric_det import DualAgg

    def setup(G):
        return Bag(pit=G.array("pit", ("n",), kinds=(FIN,), min_size=1), agg=DualAgg(), rec={})

    def call(inp):
        data = ProbData(other={verif.field.Pit: inp.pit})
        inp.rec["data"] = data
        m = verif.metric.Pit()
        m.aggregator = inp.agg
        return m.compute_single(data, 0, verif.axis.Leadtime(), 1, None)

    def post(S, inp, out):
        req = inp.rec["data"].requests
        return [("aggregate-of-the-verifying-pit-values-of-the-slice", S.same(out, inp.agg(inp.pit))),
                ("requests-the-pit-field-of-the-same-slice", len(req) == 1 and req[0] == ([("Pit", None)], 0, verif.axis.Leadtime(), 1))]
    return setup, call, post


s, c, p = _pit_metric()
register(Obligation("verif.metric.Pit.compute_single#POST:definition", ("C08",), s, c, p, modules=MOD))


def _level_mean(cls_name, two):
    def build(G, inp):
        inp.lower = G.num("lower", kinds=(FIN,)) if True else None
        inp.upper = G.num("upper", kinds=(FIN,)) if two else float("inf")

    def spec(S, inp, out):
        if two:
            want = S.sum_where(inp.obs, lambda i: S.at(inp.b, i) - S.at(inp.a, i)) / S.to_num(S.count(inp.obs))
        else:
            want = S.sum_where(inp.obs, lambda i: S.at(inp.a, i)) / S.to_num(S.count(inp.obs))
        return [("DEF:mean-of-the-forecast-%s(difference-of-the-two-levels-when-two-are-given)" % ("quantile" if cls_name == "Quantile" else "probability"), S.same(out, want))]
    _single("definition[%s]" % ("two-levels" if two else "one-level"), cls_name, build, spec)


for _cn in ("Quantile", "Threshold"):
    _level_mean(_cn, False)
    _level_mean(_cn, True)


# ------------------------------------------------------------------ spread-skill ratio
def _b_ssr(G, inp):
    inp.lower = G.num("lower", kinds=(FIN,))
    inp.upper = G.num("upper", kinds=(FIN,))
    G.assume(inp.lower > 0)
    G.assume(inp.upper < 1)
    G.assume(inp.lower < inp.upper)


def _s_ssr(S, inp, out):
    n = S.to_num(S.count(inp.obs))
    spread = S.sum_where(inp.obs, lambda i: S.at(inp.b, i) - S.at(inp.a, i)) / n
    skill = S.sqrt(S.sum_where(inp.obs, lambda i: abs(S.at(inp.obs, i) - S.at(inp.fc, i)) ** 2) / n)      # |e|^2 (= e^2; written as the code's term so that the sums unify)
    num_std = 0.5 * (S.ppf(inp.upper) - S.ppf(inp.lower))
    want = spread / num_std / skill
    return [("DEF:mean-quantile-spread-in-standard-deviations-over-rmse", S.implies(S.isfin(want), S.same(out, want)))]


_single("definition", "SpreadSkillRatio", _b_ssr, _s_ssr)


def _pithist_expected():
    def setup(G):
        return Bag(v=G.array("v", ("n",), kinds=(FIN,), min_size=1))

    def call(inp):
        return verif.metric.PitHistDev.expected_deviation(inp.v, 10), verif.metric.PitHistDev.deviation_std(inp.v, 10)

    def post(S, inp, out):
        n = S.to_num(S.count(inp.v))
        return [("expected-deviation=sqrt((1-1/B)/(n*B))", S.same(out[0], S.sqrt((1.0 - 1.0 / 10) / (n * 10)))),
                ("deviation-std=sqrt(n*p*(1-p))/n", S.same(out[1], S.sqrt(n * (1.0 / 10) * (1 - 1.0 / 10)) / n))]
    return setup, call, post


s, c, p = _pithist_expected()
register(Obligation("verif.metric.PitHistDev.expected_deviation#POST:definition", ("C08",), s, c, p, modules=MOD,
                    functions=["verif.metric.PitHistDev.expected_deviation", "verif.metric.PitHistDev.deviation_std"]))


# ------------------------------------------------------------------ PIT histogram statistics (np.histogram by its assumed contract)
def _pit_bins(S, inp, B):
    """relative frequencies of the B equally wide bins of [0,1] (half-open, the last one closed), as the definition counts them"""
    edges = [float(e) for e in _np.linspace(0, 1, B + 1)]
    counts = []
    for k in range(B):
        lo, hi, last = edges[k], edges[k + 1], k == B - 1
        counts.append(S.to_num(S.count_where(inp.pit, lambda i, lo=lo, hi=hi, last=last:
                                             S.and_(S.at(inp.pit, i) >= lo, (S.at(inp.pit, i) <= hi) if last else (S.at(inp.pit, i) < hi)))))
    total = sum(counts[1:], counts[0])
    return edges, counts, total


def _pithist(which):
    B = 10

    def setup(G):
        return Bag(pit=G.array("pit", ("n",), kinds=(FIN,), min_size=1, between=(0.0, 1.0)), rec={})

    def call(inp):
        data = ProbData(other={verif.field.Pit: inp.pit})
        inp.rec["data"] = data
        if which == "deviation":
            return verif.metric.PitHistDev.deviation(inp.pit, B)
        m = {"dev": verif.metric.PitHistDev, "slope": verif.metric.PitHistSlope, "shape": verif.metric.PitHistShape}[which]()
        return m.compute_single(data, 0, verif.axis.Leadtime(), 1, None)

    def post(S, inp, out):
        edges, counts, total = _pit_bins(S, inp, B)
        n = S.to_num(S.count(inp.pit))
        f = [c / total for c in counts]
        goals = []
        if which in ("deviation", "dev"):
            D = S.sqrt(1.0 / B * sum(((fk - 1.0 / B) ** 2 for fk in f[1:]), (f[0] - 1.0 / B) ** 2))
            if which == "deviation":
                goals.append(("DEF:rms-departure-of-the-bin-frequencies-from-1/B", S.same(out, D)))
            else:
                D0 = S.sqrt((1.0 - 1.0 / B) / (n * B))
                goals.append(("DEF:deviation-over-expected-deviation", S.same(out, D / D0)))
        else:
            centers = [(edges[k] + edges[k + 1]) / 2 for k in range(B)]
            d = [(f[k + 1] - f[k]) / (centers[k + 1] - centers[k]) for k in range(B - 1)]
            if which == "slope":
                goals.append(("DEF:mean-first-difference-quotient-of-the-bin-frequencies", S.same(out, sum(d[1:], d[0]) / (B - 1))))
            else:
                c2 = [(centers[k] + centers[k + 1]) / 2 for k in range(B - 1)]
                dd = [(d[k + 1] - d[k]) / (c2[k + 1] - c2[k]) for k in range(B - 2)]
                goals.append(("DEF:mean-second-difference-quotient-of-the-bin-frequencies", S.same(out, sum(dd[1:], dd[0]) / (B - 2))))
        if which != "deviation":
            req = inp.rec["data"].requests
            goals.append(("requests-the-pit-field-of-the-same-slice", len(req) == 1 and req[0] == ([("Pit", None)], 0, verif.axis.Leadtime(), 1)))
        # every PIT value in [0,1] falls in exactly one bin
        goals.append(("bins-partition-[0,1]:the-bin-counts-add-up-to-the-number-of-cases", S.lin_zero([(1, c) for c in counts] + [(-1, n)])))
        return goals
    return setup, call, post


for _w, _fn in (("deviation", "verif.metric.PitHistDev.deviation"), ("dev", "verif.metric.PitHistDev.compute_single"),
                ("slope", "verif.metric.PitHistSlope.compute_single"), ("shape", "verif.metric.PitHistShape.compute_single")):
    s, c, p = _pithist(_w)
    register(Obligation(_fn + "#POST:definition", ("C08",), s, c, p, modules=MOD, functions=[_fn],
                        assumptions=["np.histogram(values, edges): count per bin [e_k, e_k+1), last bin closed (assumed contract)",
                                     "bin edges are NumPy's linspace(0,1,11) as binary floating-point numbers, in the code and in the definition alike"]))


# ------------------------------------------------------------------ PIT randomisation at discrete masses (field.Pit.randomize; bounded: random numbers)
def _pit_randomize():
    def body():
        import random
        import verif.field
        rnd = random.Random(int(os.environ.get("VERIF_SEED", "0")) + 23)
        cases = 0
        for rep in range(300):
            n = rnd.randint(1, 6)
            shape = rnd.choice([(n,), (1, n, 1), (2, 1, n)])
            size = int(_np.prod(shape))
            x0, x1 = rnd.choice([(0.0, None), (None, 100.0), (0.0, 100.0), (None, None)])
            obs = _np.array([rnd.choice([0.0, 100.0, 3.5, 42.0]) for _ in range(size)]).reshape(shape)
            pit = _np.array([rnd.choice([0.0, 0.3, 0.5, 0.999, 1.0]) for _ in range(size)]).reshape(shape)
            obs0, pit0 = obs.copy(), pit.copy()
            out = _np.asarray(verif.field.Pit.randomize(obs, pit, x0, x1), float)
            cases += 1
            prob = None
            if not (_np.array_equal(obs, obs0) and _np.array_equal(pit, pit0)):
                prob = "the arrays handed in were modified (the stored PIT values of the input object)"
            else:
                for i in _np.ndindex(*shape):
                    o, p, r = obs0[i], pit0[i], out[i]
                    at0, at1 = (x0 is not None and o == x0), (x1 is not None and o == x1)
                    if not at0 and not at1 and abs(r - p) > 1e-12:      # (1 - (1 - p) differs from p by rounding)
                        prob = "a PIT value away from the discrete masses was changed"
                    elif at0 and not at1 and not (0 <= r <= p + 1e-12):
                        prob = "at the lower mass the randomised PIT must lie in [0, PIT]"
                    elif at1 and not at0 and not (p - 1e-12 <= r <= 1):
                        prob = "at the upper mass the randomised PIT must lie in [PIT, 1]"
                    if prob:
                        break
            if prob:
                return cases, {"problem": prob, "obs": obs0.tolist(), "pit": pit0.tolist(), "x0": x0, "x1": x1, "pit-after": pit.tolist(), "returned": out.tolist()}
        return cases, None
    return body


from .axis import _enumerated as _enum_pit
import os
_enum_pit("verif.field.Pit.randomize#BOUNDED:only-cases-at-a-discrete-mass-are-randomised,within-their-interval,arguments-not-modified", ("C08", "C18"),
          "300 seeded random obs/PIT arrays (1-d and 3-d, 1..6 cases) x discrete masses {x0=0, x1=100, both, none}",
          _pit_randomize(), ["verif.field.Pit.randomize"])


def _pit_repeatable():
    def body():
        import verif.field
        obs = _np.array([0.0, 3.5, 0.0, 7.0]); pit = _np.array([0.4, 0.5, 0.9, 0.2])
        a = _np.asarray(verif.field.Pit.randomize(obs.copy(), pit.copy(), 0.0, None), float)
        b = _np.asarray(verif.field.Pit.randomize(obs.copy(), pit.copy(), 0.0, None), float)
        if not _np.array_equal(a, b):
            return 1, {"obs": obs.tolist(), "pit": pit.tolist(), "x0": 0.0, "first-call": a.tolist(), "second-call": b.tolist(),
                       "want": "the same request on the same data gives the same values"}
        return 1, None
    return body


_enum_pit("verif.field.Pit.randomize#BOUNDED:the-same-request-twice-gives-the-same-values", ("C18",),
          "one input: obs=[0, 3.5, 0, 7], PIT=[0.4, 0.5, 0.9, 0.2], lower discrete mass x0=0, two calls", _pit_repeatable(), ["verif.field.Pit.randomize"])
