"""Set-like one-dimensional arrays: the assumed contracts of np.sort / np.unique / np.intersect1d / np.isin on
one-dimensional float arrays whose elements are finite or NaN, and of boolean-mask indexing that removes the NaNs of
such an array.  Only active when an obligation switches it on (CTX.set_theory): the other obligations keep the older,
functional model of np.sort.

An array r produced by one of these functions is an ordinary SArr over a fresh axis with uninterpreted elements plus
facts, instantiated at the index terms of its axis (Axis hooks):

  (order)    for index terms j < t in range:   r[j] finite and r[t] finite -> r[j] <= r[t]  (< when r is duplicate-free)
                                               r[j] NaN -> r[t] NaN                         (NumPy sorts NaN last)
  (sound)    for an index term k in range:     r[k] finite -> r[k] is a member of every source array of r
  (complete) on demand, for a value v:         v member of every source array -> 0 <= wit_r(v) < len(r) and r[wit_r(v)] = v

"member of a source array x" is an uninterpreted predicate mem_x(v) with
  (raw-sound)    for an index term j of x in range:  x[j] finite -> mem_x(x[j])
  (raw-complete) on demand, for a value v:           mem_x(v) -> 0 <= wit_x(v) < len(x) and x[wit_x(v)] finite and = v
i.e. mem_x(v) <=> exists j. x[j] = v, Skolemised in both directions.  The membership of np.sort(x), np.unique(x) is that of
x, the membership of np.intersect1d(a, b) is the conjunction: no quantifier is ever handed to the solver.

What is assumed about NumPy (checked on concrete arrays by the EXT obligation `numpy.set-routines#EXT`):
  np.sort(x)            same length, ascending, NaN last, same members
  np.unique(x)          length <= len(x) (>= 1 if x is non-empty), strictly ascending, NaN (if any) last, same members
  np.intersect1d(a, b)  strictly ascending, NaN-free, members = members of a that are members of b
  np.isin(x, r)         element-wise membership (NaN is never a member)
  r[~isnan(r)]          for an ascending r with NaN last: the prefix of its finite elements
"""
import z3

from . import sym
from .sym import CTX, SNum, SBool, SArr, Axis, Unsupported, FIN, NAN, bz


class Raw(object):
    """a source array (input coordinates, the user's list): membership predicate and witness function"""
    def __init__(self, arr):
        n = next(CTX.counter)
        self.arr = arr
        self.ax = arr.axes[0]
        self.get = arr._snapshot()
        self.mem = z3.Function("mem!%d" % n, z3.RealSort(), z3.BoolSort())
        self.wit = z3.Function("wit!%d" % n, z3.RealSort(), z3.IntSort())
        self.demanded = set()
        ax, g, mem = self.ax, self.get, self.mem

        def hook(j):
            e = sym._elem_num(g((j,)))
            CTX.facts.append(z3.Implies(z3.And(j >= 0, j < ax.size.v, bz(e.isfin())), mem(e.rv())))
        ax.add_hook(hook)

    def demand(self, v):
        if v.get_id() in self.demanded:
            return
        self.demanded.add(v.get_id())
        w = self.wit(v)
        e = sym._elem_num(self.get((w,)))
        CTX.facts.append(z3.Implies(self.mem(v), z3.And(w >= 0, w < self.ax.size.v, bz(e.isfin()), e.rv() == v)))
        self.ax.note_index(w)


class SetInfo(object):
    def __init__(self, raws, strict, nan_free, parent=None):
        self.raws = raws            # membership = conjunction over these
        self.strict = strict
        self.nan_free = nan_free
        self.parent = parent        # for a NaN-free prefix: the array it is a prefix of
        self.wit = None
        self.demanded = set()

    def mem(self, v):
        return z3.And(*[r.mem(v) for r in self.raws]) if self.raws else z3.BoolVal(True)


def _raws_of(a):
    """the source arrays of an array-like argument (an SArr with or without set information)"""
    if not isinstance(a, SArr):
        raise Unsupported("set routine on a concrete array together with a symbolic one")
    if a.ndim != 1 or a.sel is not None or a.mask is not None or a.flat and len(a.axes) != 1:
        raise Unsupported("set routine on a filtered / masked / multi-dimensional proxy")
    info = getattr(a, "setinfo", None)
    if info is not None:
        return info.raws
    # one membership predicate per array CONTENT: the key holds the element function, which in-place writes replace
    key = (id(a.store), id(a.store.get), id(a.tmap) if a.tmap is not None else 0)
    reg = CTX.ghost.setdefault("raw_by_store", {})
    if key not in reg:
        probe = sym._elem_num(a._snapshot()(sym._fresh_idx(a.axes, "p")))
        if not CTX.engine.entails(z3.Or(bz(probe.isfin()), bz(probe.isnan_raw())), timeout_ms=2000):
            raise Unsupported("set routines are modelled for arrays of finite or NaN values only")
        reg[key] = (a, Raw(a), a.store.get, a.tmap)       # keep the objects alive: ids of dead objects are reused
    return [reg[key][1]]


def _new(name, size, raws, strict, nan_free, elem=None, parent=None):
    n = next(CTX.counter)
    ax = Axis("%s!%d" % (name, n), size)
    if elem is None:
        fv = z3.Function("set_%s!%d_v" % (name, n), z3.IntSort(), z3.RealSort())
        if nan_free:
            elem = lambda idx: SNum(FIN, fv(idx[0]))
        else:
            fk = z3.Function("set_%s!%d_k" % (name, n), z3.IntSort(), z3.IntSort())
            seen = set()

            def elem(idx):
                k = fk(idx[0])
                if k.get_id() not in seen:
                    seen.add(k.get_id())
                    CTX.facts.append(z3.Or(k == FIN, k == NAN))
                return SNum(k, fv(idx[0]))
    r = SArr((ax,), elem, "float")
    info = SetInfo(raws, strict, nan_free, parent)
    info.wit = z3.Function("setwit_%s!%d" % (name, n), z3.RealSort(), z3.IntSort())
    r.setinfo = info
    g = r._snapshot()

    def hook(j):
        inr = z3.And(j >= 0, j < ax.size.v)
        e = sym._elem_num(g((j,)))
        # (sound)
        CTX.facts.append(z3.Implies(z3.And(inr, bz(e.isfin())), info.mem(e.rv())))
        for raw in raws:
            raw.demand(e.rv())
        # (order), against every other index term of the axis
        for t in list(CTX.axis_terms.get(id(ax), [])):
            if t.get_id() == j.get_id():
                continue
            f = sym._elem_num(g((t,)))
            both = z3.And(inr, t >= 0, t < ax.size.v)
            fin2 = z3.And(bz(e.isfin()), bz(f.isfin()))
            lt = (lambda a, b: a < b) if strict else (lambda a, b: a <= b)
            CTX.facts.append(z3.Implies(both, z3.And(
                z3.Implies(z3.And(j < t, fin2), lt(e.rv(), f.rv())),
                z3.Implies(z3.And(t < j, fin2), lt(f.rv(), e.rv())),
                z3.Implies(z3.And(j < t, bz(e.isnan_raw())), bz(f.isnan_raw())),
                z3.Implies(z3.And(t < j, bz(f.isnan_raw())), bz(e.isnan_raw())))))
    ax.add_hook(hook)
    CTX.ghost.setdefault("setarrs", []).append(r)
    return r


def demand(r, v):
    """(complete) for the set-like array r at the value term v; returns the witness index term"""
    info = r.setinfo
    w = info.wit(v)
    if v.get_id() in info.demanded:
        return w
    info.demanded.add(v.get_id())
    ax = r.axes[0]
    e = sym._elem_num(r._snapshot()((w,)))
    CTX.facts.append(z3.Implies(info.mem(v), z3.And(w >= 0, w < ax.size.v, bz(e.isfin()), e.rv() == v)))
    ax.note_index(w)
    return w


def is_sorted_set(a):
    return isinstance(a, SArr) and getattr(a, "setinfo", None) is not None


def sort(a):
    if is_sorted_set(a):
        # sorting an ascending array (NaN last) returns an equal array (lean/Reductions.lean R11)
        return alias(a)
    raws = _raws_of(a)
    return _new("sort", a.axes[0].size, raws, False, False)


def alias(a):
    """a new array object with the same elements and the same facts"""
    r = SArr(a.axes, a._snapshot(), "float")
    r.setinfo = a.setinfo
    return r


def unique(a):
    raws = _raws_of(a)
    n = a.axes[0].size.v
    m = CTX.fresh("n_unique", "int")
    CTX.facts.append(z3.And(m >= 0, m <= n, z3.Implies(n >= 1, m >= 1)))
    info = getattr(a, "setinfo", None)
    nan_free = bool(info is not None and info.nan_free)
    return _new("unique", SNum(FIN, m, is_int=True), raws, True, nan_free)


def intersect1d(a, b):
    ra, rb = _raws_of(a), _raws_of(b)
    raws = list(ra) + [x for x in rb if not any(x is y for y in ra)]
    m = CTX.fresh("n_common", "int")
    CTX.facts.append(z3.And(m >= 0, m <= a.axes[0].size.v, m <= b.axes[0].size.v))
    return _new("intersect1d", SNum(FIN, m, is_int=True), raws, True, True)


def isin(x, r):
    raws = _raws_of(r)
    g = x._snapshot()

    def get(idx):
        e = sym._elem_num(g(idx))
        return SBool(z3.And(bz(e.isfin()), *[raw.mem(e.rv()) for raw in raws]))
    return SArr(x.axes, get, "bool", x.sel, x.mask, flat=x.flat)


def drop_nan(a, key):
    """a[key] for an ascending set-like array a (NaN last), where key is element-wise `a is not NaN`: the prefix of the
    finite elements.  Returns None when key is not recognised as that mask (semantic check, at a generic index)."""
    if not is_sorted_set(a) or not isinstance(key, SArr) or key.dtype != "bool" or key.axes != a.axes or key.sel is not None:
        return None
    info = a.setinfo
    ax = a.axes[0]
    g, kg = a._snapshot(), key._snapshot()
    p = sym._fresh_idx(a.axes, "p")
    e = sym._elem_num(g(p))
    same = z3.Implies(sym.rng(p), bz(kg(p).z) == z3.Not(bz(e.isnan_raw())))
    if not CTX.engine.entails(same, timeout_ms=5000):
        return None
    if info.nan_free:
        return alias(a)
    m = CTX.fresh("n_finite", "int")
    CTX.facts.append(z3.And(m >= 0, m <= ax.size.v))
    # an index term of a is below m exactly when its element is finite
    ax.add_hook(lambda j: CTX.facts.append(z3.Implies(z3.And(j >= 0, j < ax.size.v), (j < m) == bz(sym._elem_num(g((j,))).isfin()))))
    r = _new("finite_prefix", SNum(FIN, m, is_int=True), info.raws, info.strict, True,
             elem=lambda idx: SNum(FIN, sym._elem_num(g(idx)).rv()), parent=a)
    ax2 = r.axes[0]
    # index terms are shared by the two axes (same positions)
    ax2.add_hook(lambda j: ax.note_index(j))
    # the witness of a member value in the prefix is its witness in a
    r.setinfo.wit = None
    r.setinfo.via = a
    return r


def demand_any(r, v):
    """witness index of the value v in r (works through NaN-free prefixes)"""
    via = getattr(r.setinfo, "via", None)
    if via is not None:
        w = demand_any(via, v)
        r.axes[0].note_index(w)
        return w
    return demand(r, v)
